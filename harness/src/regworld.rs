//! Engine S, second world: scripted sources whose `process_events` result, deferred requests,
//! registration failures and lifecycle hooks come from the choice tape. Serves C09 (post-actions),
//! C13 (idles), C14 (lifecycle hooks) and C15 (faults).
//!
//! A `Scr<L>` is a harness-defined composite written the way the documentation asks: it
//! delegates registration to `Generic` children over harness-owned eventfds (one token each),
//! ignores tokens that are not its own, and (for `L = true`) opts into the extra lifecycle events.

use std::cell::{Cell, RefCell};
use std::collections::BTreeMap;
use std::hash::{Hash, Hasher};
use std::os::fd::{AsRawFd, OwnedFd};
use std::panic::{catch_unwind, AssertUnwindSafe};
use std::rc::Rc;
use std::time::Duration;

use calloop::generic::Generic;
use calloop::timer::Timer;
use calloop::{
    EventIterator, EventLoop, EventSource, Idle, Interest, LoopHandle, Mode, Poll, PostAction,
    Readiness, RegistrationToken, Token, TokenFactory,
};

use crate::epoll;
use crate::explore::{self, Kind, Outcome, Violation};
use crate::seqhooks;
use crate::world::FdRef;

#[derive(Default, Debug)]
pub struct Sh {
    pub reg: Cell<u32>,
    pub rereg: Cell<u32>,
    pub unreg: Cell<u32>,
    pub reg_fail: Cell<u32>,
    pub registered: Cell<bool>,
    pub pe: Cell<u32>,
    pub in_pe: Cell<bool>,
    pub bs: Cell<u32>,
    pub bhe: Cell<u32>,
    pub src_dropped: Cell<u32>,
    pub cb_dropped: Cell<u32>,
    pub reg_key: Cell<Option<usize>>,
    /// next before_sleep returns a synthetic event for this sub
    pub synth: Cell<Option<usize>>,
    /// tokens yielded by the iterator of the last before_handle_events
    pub bhe_seen: RefCell<Vec<Token>>,
    /// ordered log of hook calls of this dispatch ("bs", "bhe", "pe"), shared by all actors
    pub seq: RefCell<Option<Rc<RefCell<Vec<(usize, &'static str)>>>>>,
    pub faults_on: Cell<bool>,
    /// child index at which the last injected register fault struck
    pub fail_at: Cell<usize>,
    /// the event being handed to the callback is a synthetic one (marked by before_sleep)
    pub last_synth: Cell<bool>,
    /// the last injected unregister fault struck after every child had been unregistered
    pub late_fault: Cell<bool>,
    /// composite: the transient child answers Remove the next time it fires
    pub child_remove: Cell<bool>,
}

fn bump(c: &Cell<u32>) {
    c.set(c.get() + 1)
}

pub struct Scr<const L: bool> {
    pub id: usize,
    pub subs: Vec<Generic<FdRef>>,
    pub timer: Option<Timer>,
    pub sh: Rc<Sh>,
}

impl<const L: bool> Drop for Scr<L> {
    fn drop(&mut self) {
        bump(&self.sh.src_dropped);
    }
}

pub struct CbGuard(pub Rc<Sh>);
impl Drop for CbGuard {
    fn drop(&mut self) {
        bump(&self.0.cb_dropped);
    }
}

pub struct Comp {
    pub id: usize,
    pub t: calloop::transient::TransientSource<Generic<FdRef>>,
    pub others: Vec<Generic<FdRef>>,
    pub sh: Rc<Sh>,
}

impl Drop for Comp {
    fn drop(&mut self) {
        bump(&self.sh.src_dropped);
    }
}

impl EventSource for Comp {
    type Event = usize;
    type Metadata = ();
    type Ret = Ret;
    type Error = std::io::Error;

    fn process_events<F>(&mut self, readiness: Readiness, token: Token, mut callback: F) -> Result<PostAction, Self::Error>
    where
        F: FnMut(usize, &mut ()) -> Ret,
    {
        bump(&self.sh.pe);
        self.sh.in_pe.set(true);
        let mut hit: Option<usize> = None;
        let arm = self.sh.child_remove.get();
        let tr = self.t.process_events(readiness, token, |_, fd| {
            hit = Some(0);
            epoll::eventfd_read(fd.0.as_raw_fd());
            Ok(if arm { PostAction::Remove } else { PostAction::Continue })
        })?;
        if hit == Some(0) && arm {
            self.sh.child_remove.set(false);
        }
        for (k, g) in self.others.iter_mut().enumerate() {
            let mut ran = false;
            let _ = g.process_events(readiness, token, |_, fd| {
                ran = true;
                epoll::eventfd_read(fd.0.as_raw_fd());
                Ok(PostAction::Continue)
            });
            if ran {
                hit = Some(k + 1);
            }
        }
        let user = match hit {
            Some(k) => callback(k, &mut ()),
            None => Ret::Continue,
        };
        self.sh.in_pe.set(false);
        let mine = match user {
            Ret::Continue => PostAction::Continue,
            Ret::Reregister => PostAction::Reregister,
            Ret::Disable => PostAction::Disable,
            Ret::Remove => PostAction::Remove,
            Ret::Err => return Err(std::io::Error::new(std::io::ErrorKind::Other, "scripted failure")),
        };
        // the documented way of combining the transient child's answer with our own
        Ok(if tr == PostAction::Reregister && mine == PostAction::Continue { PostAction::Reregister } else { mine })
    }

    fn register(&mut self, poll: &mut Poll, tf: &mut TokenFactory) -> calloop::Result<()> {
        bump(&self.sh.reg);
        self.t.register(poll, tf)?;
        for g in self.others.iter_mut() {
            g.register(poll, tf)?;
        }
        self.sh.registered.set(true);
        Ok(())
    }

    fn reregister(&mut self, poll: &mut Poll, tf: &mut TokenFactory) -> calloop::Result<()> {
        bump(&self.sh.rereg);
        self.t.reregister(poll, tf)?;
        for g in self.others.iter_mut() {
            g.reregister(poll, tf)?;
        }
        Ok(())
    }

    fn unregister(&mut self, poll: &mut Poll) -> calloop::Result<()> {
        bump(&self.sh.unreg);
        self.t.unregister(poll)?;
        for g in self.others.iter_mut() {
            g.unregister(poll)?;
        }
        self.sh.registered.set(false);
        Ok(())
    }
}

/// What the user callback tells the scripted source to return.
#[derive(Clone, Copy, Debug, PartialEq, Eq, Hash)]
pub enum Ret {
    Continue,
    Reregister,
    Disable,
    Remove,
    Err,
}

fn injected() -> calloop::Error {
    calloop::Error::IoError(std::io::Error::new(std::io::ErrorKind::Other, "injected fault"))
}

impl<const L: bool> Scr<L> {
    fn note(&self, what: &'static str) {
        if let Some(s) = self.sh.seq.borrow().as_ref() {
            s.borrow_mut().push((self.id, what));
        }
    }
    /// fault point: fail at this registration step? (a deviation)
    fn fault(&self) -> bool {
        self.sh.faults_on.get() && explore::choose(2, Kind::Dev) == 1
    }
}

impl<const L: bool> EventSource for Scr<L> {
    type Event = usize;
    type Metadata = ();
    type Ret = Ret;
    type Error = std::io::Error;

    fn process_events<F>(&mut self, readiness: Readiness, token: Token, mut callback: F) -> Result<PostAction, Self::Error>
    where
        F: FnMut(usize, &mut ()) -> Ret,
    {
        bump(&self.sh.pe);
        self.note("pe");
        self.sh.in_pe.set(true);
        let mut hit: Option<usize> = None;
        let mut synthetic = false;
        for (k, g) in self.subs.iter_mut().enumerate() {
            let mut ran = false;
            let _ = g.process_events(readiness, token, |rd, fd| {
                ran = true;
                // synthetic events (marked with the error bit by before_sleep) do not touch the fd
                if !rd.error {
                    epoll::eventfd_read(fd.0.as_raw_fd());
                } else {
                    synthetic = true;
                }
                Ok(PostAction::Continue)
            });
            if ran {
                hit = Some(k);
            }
        }
        self.sh.last_synth.set(synthetic);
        let r = match hit {
            Some(k) => match callback(k, &mut ()) {
                Ret::Continue => Ok(PostAction::Continue),
                Ret::Reregister => Ok(PostAction::Reregister),
                Ret::Disable => Ok(PostAction::Disable),
                Ret::Remove => Ok(PostAction::Remove),
                Ret::Err => Err(std::io::Error::new(std::io::ErrorKind::Other, "scripted failure")),
            },
            None => Ok(PostAction::Continue),
        };
        self.sh.in_pe.set(false);
        r
    }

    fn register(&mut self, poll: &mut Poll, tf: &mut TokenFactory) -> calloop::Result<()> {
        bump(&self.sh.reg);
        if let Some(t) = self.timer.as_mut() {
            t.register(poll, tf)?;
        }
        for k in 0..self.subs.len() {
            // fault point before each child registration: earlier children stay registered
            if self.fault() {
                bump(&self.sh.reg_fail);
                self.sh.fail_at.set(k);
                return Err(injected());
            }
            self.subs[k].register(poll, tf)?;
        }
        self.sh.registered.set(true);
        Ok(())
    }

    fn reregister(&mut self, poll: &mut Poll, tf: &mut TokenFactory) -> calloop::Result<()> {
        bump(&self.sh.rereg);
        if self.fault() {
            bump(&self.sh.reg_fail);
            return Err(injected());
        }
        if !self.sh.registered.get() {
            // a composite that knows it is not registered has nothing to refresh
            return Ok(());
        }
        if let Some(t) = self.timer.as_mut() {
            t.reregister(poll, tf)?;
        }
        for g in self.subs.iter_mut() {
            g.reregister(poll, tf)?;
        }
        Ok(())
    }

    fn unregister(&mut self, poll: &mut Poll) -> calloop::Result<()> {
        bump(&self.sh.unreg);
        if self.fault() {
            bump(&self.sh.reg_fail);
            return Err(injected());
        }
        if let Some(t) = self.timer.as_mut() {
            t.unregister(poll)?;
        }
        for g in self.subs.iter_mut() {
            g.unregister(poll)?;
        }
        self.sh.registered.set(false);
        // second fault point: everything is unregistered, but the call still reports a failure
        if self.fault() {
            bump(&self.sh.reg_fail);
            self.sh.late_fault.set(true);
            return Err(injected());
        }
        Ok(())
    }

    const NEEDS_EXTRA_LIFECYCLE_EVENTS: bool = L;

    fn before_sleep(&mut self) -> calloop::Result<Option<(Readiness, Token)>> {
        bump(&self.sh.bs);
        self.note("bs");
        if let (Some(k), Some(key), true) = (self.sh.synth.get(), self.sh.reg_key.get(), self.sh.registered.get()) {
            self.sh.synth.set(None);
            // the token sub k got at its last registration: sub-ids are handed out consecutively
            let mut tf = calloop::verif::token_factory(key);
            let skip = if self.timer.as_ref().map(|t| t.current_deadline().is_some()).unwrap_or(false) { 1 } else { 0 };
            let mut tok = tf.token();
            for _ in 0..(k + skip) {
                tok = tf.token();
            }
            return Ok(Some((
                Readiness {
                    readable: true,
                    writable: false,
                    error: true,
                },
                tok,
            )));
        }
        Ok(None)
    }

    fn before_handle_events(&mut self, events: EventIterator<'_>) {
        bump(&self.sh.bhe);
        self.note("bhe");
        *self.sh.bhe_seen.borrow_mut() = events.map(|(_, t)| t).collect();
    }
}

// =========================================================================================
// world

#[derive(Clone, Copy, Debug, PartialEq, Eq, Hash)]
pub enum Spec {
    /// scripted source: lifecycle?, number of fd children, timer child first?
    Scr { life: bool, nsubs: u8, timer: bool },
    /// composite written after the documentation: a TransientSource<Generic> child (sub 0) in front
    /// of two plain Generic children (subs 1 and 2)
    Comp,
    /// a plain calloop timer with a deadline in the past (fires at the next dispatch, then drops)
    PastTimer,
}

#[derive(Clone, Copy, Debug, PartialEq, Eq, Hash)]
pub enum ROp {
    Dispatch,
    Insert(Spec),
    Remove(usize),
    Disable(usize),
    Enable(usize),
    Update(usize),
    Ping(usize, u8),
    /// composite: its transient child answers Remove the next time it fires
    ArmChildRemove(usize),
    Synth(usize, u8),
    InsertIdle,
    CancelIdle(usize),
    DropIdle(usize),
    /// LoopSignal::stop(): only means something to run()/block_on(); a dispatch() made by hand
    /// processes its events and runs its idles all the same
    Stop,
    // in-callback only
    Return(Ret),
    DeferDisable,
    DeferUpdate,
    RemoveSelf,
    RemoveSelfReinsert,
}

#[derive(Clone, Debug)]
pub struct RCfg {
    pub name: &'static str,
    pub initial_sets: Vec<Vec<Spec>>,
    pub insertable: Vec<Spec>,
    pub max_actors: usize,
    pub depth: u32,
    pub max_cb_ops: u32,
    pub faults: bool,
    pub top_ops: bool,
    pub synth: bool,
    pub idles: bool,
    pub max_idles: usize,
    pub cb_ret: Vec<Ret>,
    pub cb_defer: bool,
    pub cb_remove_self: bool,
    pub cb_others: bool,
    pub cb_idle_ops: bool,
    pub final_dispatches: u32,
    pub prune: bool,
    /// every violation found by this configuration is also a verdict of this property
    pub tag_all: Option<&'static str>,
    /// update() is also issued on disabled sources (a composite that knows it is unregistered
    /// answers Ok without touching its children)
    pub update_disabled: bool,
}

#[derive(Clone, Debug, Hash)]
pub struct RA {
    pub spec: Spec,
    pub alive: bool,
    pub enabled: bool,
    pub pend: Vec<bool>,
    pub synth: Option<u8>,
    pub reg: (u32, u32),
    pub rereg: (u32, u32),
    pub unreg: (u32, u32),
    /// registration state is whatever the implementation says (after a fault / error latitude)
    pub loose: bool,
    pub owed: bool,
    pub called: bool,
    pub disturbed: bool,
    pub lat_pe: Option<u32>,
    pub bs0: u32,
    pub bhe0: u32,
    pub pe0: u32,
    pub fail0: u32,
    /// faults hit by handle operations (not by the loop's own post-action calls) on this actor
    pub op_fail: u32,
    pub op_fail0: u32,
    /// an enable() of this disabled source failed and nothing has succeeded on it since: it is still disabled
    pub enable_failed: bool,
    /// the source was disabled during a dispatch while its synthetic event of that batch had not
    /// been served: the event is dropped if it comes while the source is still disabled, delivered
    /// if the source has been enabled again by then
    pub synth_maybe: Option<u8>,
    /// inserted at the second attempt (the first one was rejected by an injected fault): one more
    /// register call, and the first attempt's callback has been dropped
    pub retried: bool,
    /// a disable() reported a failure after the source had unregistered every child: it is known to
    /// be fully unregistered, and a later successful enable() brings it back to a known state
    pub clean_unreg: bool,
    /// removed, or disabled-with-failed-enable, when the current dispatch began
    pub dead0: bool,
    pub life_owed: bool,
    pub synth_owed: Option<u8>,
    pub synth_owed_at_start: Option<u8>,
    pub synth_seen: bool,
    pub timer_fired: bool,
    pub rejected: bool,
    /// composite: the transient child is armed to remove itself / is gone
    pub tarmed: bool,
    pub tgone: bool,
    /// composite: the child went away in this dispatch while sibling events were still in the batch
    pub shifted_in_batch: bool,
    /// a registration call on this (composite) source failed half-way: which of its children
    /// are registered is the source's own business; the property only protects the others
    pub broken: bool,
}

#[derive(Clone, Copy, Debug, PartialEq, Eq, Hash)]
pub enum IdleSt {
    Pending,
    Cancelled,
    Ran,
}

#[derive(Clone, Debug, Hash)]
pub struct MIdle {
    pub st: IdleSt,
    /// inserted during the idle phase of the dispatch with this number (runs in a later one)
    pub born_in_idle_phase: Option<u32>,
    pub ran_in: Option<u32>,
    pub handle_dropped: bool,
}

pub struct RRt {
    pub token: Option<RegistrationToken>,
    pub sh: Rc<Sh>,
    pub efds: Vec<Rc<OwnedFd>>,
}

pub struct RCtx {
    pub h: LoopHandle<'static, RCtx>,
    pub signal: calloop::LoopSignal,
    pub stop_requested: bool,
    pub cfg: Rc<RCfg>,
    pub m: Vec<RA>,
    pub rt: Vec<RRt>,
    pub idles: Vec<MIdle>,
    pub idle_handles: Vec<Option<Idle<'static>>>,
    pub epfd: i32,
    pub in_dispatch: bool,
    pub idle_phase: bool,
    pub dispatch_no: u32,
    pub idle_runs_this_dispatch: Vec<usize>,
    pub cur: Vec<usize>,
    pub depth_used: u32,
    pub violations: Vec<Violation>,
    pub decoded: Vec<String>,
    pub obs: std::collections::hash_map::DefaultHasher,
    pub transitions: u64,
    pub callbacks: u64,
    pub deviated: bool,
    pub clauses: Vec<&'static str>,
    pub verbose: Option<Vec<String>>,
    pub seq: Rc<RefCell<Vec<(usize, &'static str)>>>,
    pub expect_err: bool,
    pub any_fault: bool,
    pub poisoned: bool,
    pub err_dispatches: u32,
    pub pend_at_wait: BTreeMap<usize, Vec<u8>>,
}

impl RCtx {
    fn clause(&mut self, c: &'static str) {
        if !self.clauses.contains(&c) {
            self.clauses.push(c);
        }
    }
    pub fn violate(&mut self, props: &[&str], clause: &str, feats: &[(&str, String)], msg: String) {
        let mut features = BTreeMap::new();
        for (k, v) in feats {
            features.insert(k.to_string(), v.clone());
        }
        if let Some(v) = self.verbose.as_mut() {
            v.push(format!("!! VIOLATION {clause}: {msg}"));
        }
        self.violations.push(Violation {
            props: props.iter().map(|s| s.to_string()).collect(),
            clause: clause.to_string(),
            features,
            message: msg,
            tape: vec![],
            decoded: vec![],
        });
    }
    fn log(&mut self, s: String) {
        s.hash(&mut self.obs);
        if let Some(v) = self.verbose.as_mut() {
            v.push(s);
        }
    }
    fn note(&mut self, s: String) {
        if let Some(v) = self.verbose.as_mut() {
            v.push(s);
        }
    }

    // ---------------------------------------------------------------- insertion

    pub fn insert(&mut self, spec: Spec) {
        let id = self.m.len();
        let sh = Rc::new(Sh::default());
        *sh.seq.borrow_mut() = Some(self.seq.clone());
        sh.faults_on.set(self.cfg.faults);
        let mut ra = RA {
            spec,
            alive: true,
            enabled: true,
            pend: vec![],
            synth: None,
            reg: (1, 1),
            rereg: (0, 0),
            unreg: (0, 0),
            loose: false,
            owed: false,
            called: false,
            disturbed: false,
            lat_pe: None,
            bs0: 0,
            bhe0: 0,
            pe0: 0,
            fail0: 0,
            op_fail: 0,
            op_fail0: 0,
            enable_failed: false,
            synth_maybe: None,
            retried: false,
            clean_unreg: false,
            dead0: false,
            life_owed: false,
            synth_owed: None,
            synth_owed_at_start: None,
            synth_seen: false,
            timer_fired: false,
            rejected: false,
            tarmed: false,
            tgone: false,
            shifted_in_batch: false,
            broken: false,
        };
        let mut rt = RRt {
            token: None,
            sh: sh.clone(),
            efds: vec![],
        };
        let guard = CbGuard(sh.clone());
        let stats_before = self.h.verif_stats();
        let table_before = epoll::table(self.epfd);
        let fails_before = sh.reg_fail.get();
        let mut retried = false;
        let res: Result<RegistrationToken, String> = match spec {
            Spec::Scr { life, nsubs, timer } => {
                ra.pend = vec![false; nsubs as usize];
                let mut subs = vec![];
                for _ in 0..nsubs {
                    let efd = Rc::new(epoll::eventfd());
                    rt.efds.push(efd.clone());
                    subs.push(Generic::new(FdRef(efd), Interest::READ, Mode::Level));
                }
                let tm = if timer {
                    // far in the future: only its heap entry matters
                    Some(Timer::from_deadline(seqhooks::base() + Duration::from_secs(500)))
                } else {
                    None
                };
                if life {
                    let src: Scr<true> = Scr { id, subs, timer: tm, sh: sh.clone() };
                    let r = self.h.insert_source(src, move |k, _, ctx: &mut RCtx| {
                        let _g = &guard;
                        ctx.on_cb(id, k)
                    });
                    self.maybe_retry(r, id, &sh, fails_before, &mut retried)
                } else {
                    let src: Scr<false> = Scr { id, subs, timer: tm, sh: sh.clone() };
                    let r = self.h.insert_source(src, move |k, _, ctx: &mut RCtx| {
                        let _g = &guard;
                        ctx.on_cb(id, k)
                    });
                    self.maybe_retry(r, id, &sh, fails_before, &mut retried)
                }
            }
            Spec::Comp => {
                ra.pend = vec![false; 3];
                let mut gens = vec![];
                for _ in 0..3 {
                    let efd = Rc::new(epoll::eventfd());
                    rt.efds.push(efd.clone());
                    gens.push(Generic::new(FdRef(efd), Interest::READ, Mode::Level));
                }
                let first = gens.remove(0);
                let src = Comp { id, t: first.into(), others: gens, sh: sh.clone() };
                self.h
                    .insert_source(src, move |k, _, ctx: &mut RCtx| {
                        let _g = &guard;
                        ctx.on_cb(id, k)
                    })
                    .map_err(|e| format!("{:?}", e.error))
            }
            Spec::PastTimer => {
                let t = Timer::from_deadline(seqhooks::base() - Duration::from_secs(1));
                self.h
                    .insert_source(t, move |_, _, ctx: &mut RCtx| {
                        let _g = &guard;
                        ctx.on_timer(id);
                        calloop::timer::TimeoutAction::Drop
                    })
                    .map_err(|e| format!("{:?}", e.error))
            }
        };
        match res {
            Ok(tok) => {
                if retried {
                    ra.retried = true;
                    ra.reg.0 += 1;
                    ra.reg.1 += 1;
                }
                rt.token = Some(tok);
                sh.reg_key.set(Some(calloop::verif::registration_key(&tok)));
                if matches!(spec, Spec::PastTimer) {
                    // calloop timers are not instrumented: registration counters are not compared
                    ra.loose = true;
                }
            }
            Err(e) => {
                let injected_now = sh.reg_fail.get() > fails_before + retried as u32;
                if retried && !injected_now {
                    self.violate(&["C15"], "retry-failed", &[], format!("the source handed back by a failed insertion of {spec:?} (nothing of it left in the poller) could not be inserted again: {e}"));
                }
                let injected_now = injected_now || retried;
                ra.alive = false;
                ra.enabled = false;
                ra.rejected = true;
                ra.loose = true;
                if !injected_now {
                    self.violate(&["C15", "C08"], "insert-failed", &[], format!("insertion of {spec:?} failed without an injected fault: {e}"));
                } else {
                    self.any_fault = true;
                    self.clause("failed-insert");
                    // the rejected source was handed back inside the InsertError and has been dropped:
                    // the loop must look as if the call had not been made
                    let stats_after = self.h.verif_stats();
                    let table_after = epoll::table(self.epfd);
                    let occ = |s: &calloop::verif::Stats| s.slots.iter().filter(|x| x.1).map(|x| x.0).collect::<Vec<_>>();
                    if occ(&stats_before) != occ(&stats_after) {
                        self.violate(&["C15"], "failed-insert-leaks-slot", &[], format!("occupied slots changed across a failed insertion: {:?} -> {:?}", occ(&stats_before), occ(&stats_after)));
                    }
                    if stats_before.lifecycle != stats_after.lifecycle {
                        self.violate(&["C15", "C14"], "failed-insert-leaks-lifecycle-entry", &[], format!("lifecycle set changed across a failed insertion: {:?} -> {:?}", stats_before.lifecycle, stats_after.lifecycle));
                    }
                    // (a source that was registered twice by a retry registered its timer child twice:
                    // the first wheel entry is the composite's own business)
                    if stats_before.timers.len() != stats_after.timers.len() && !retried {
                        self.violate(&["C15"], "failed-insert-leaks-timer", &[], format!("timer heap grew from {} to {} entries across a failed insertion", stats_before.timers.len(), stats_after.timers.len()));
                    }
                    if table_before != table_after {
                        self.violate(&["C15", "C16"], "failed-insert-leaks-fd", &[], format!("epoll interest list changed across a failed insertion: {table_before:?} -> {table_after:?}"));
                    }
                    if sh.src_dropped.get() != 1 || sh.cb_dropped.get() != 1 {
                        self.violate(&["C15"], "failed-insert-not-handed-back", &[], format!("rejected source dropped {}x, its callback {}x", sh.src_dropped.get(), sh.cb_dropped.get()));
                    }
                }
            }
        }
        self.m.push(ra);
        self.rt.push(rt);
    }

    /// C15 "the insertion can be retried": when an injected fault rejected the source before any of
    /// its fd children was registered (so nothing of it is left in the poller), the very source the
    /// InsertError hands back may be inserted again (a free choice). The second attempt is an
    /// ordinary insertion: it succeeds unless a fault is injected again, and the source then
    /// behaves like any other (in particular its timer child is armed under the new registration).
    fn maybe_retry<const L: bool>(
        &mut self,
        r: Result<RegistrationToken, calloop::InsertError<Scr<L>>>,
        id: usize,
        sh: &Rc<Sh>,
        fails_before: u32,
        retried: &mut bool,
    ) -> Result<RegistrationToken, String> {
        match r {
            Ok(t) => Ok(t),
            Err(e) => {
                let injected_now = sh.reg_fail.get() > fails_before;
                if injected_now && sh.fail_at.get() == 0 && explore::choose(2, Kind::Free) == 1 {
                    *retried = true;
                    self.clause("insert-retried");
                    self.decoded.push(format!("  retry insertion of the handed-back source {id}"));
                    let src = e.inserted;
                    self.h
                        .insert_source(src, move |k, _, ctx: &mut RCtx| ctx.on_cb(id, k))
                        .map_err(|e| format!("{:?}", e.error))
                } else {
                    Err(format!("{:?}", e.error))
                }
            }
        }
    }

    // ---------------------------------------------------------------- menus

    fn cur_actor(&self) -> Option<usize> {
        self.cur.last().copied()
    }

    pub fn top_menu(&self) -> Vec<ROp> {
        let c = &self.cfg;
        if self.depth_used >= c.depth {
            return vec![];
        }
        let mut v = vec![ROp::Dispatch];
        if self.m.len() < c.max_actors {
            for &s in &c.insertable {
                v.push(ROp::Insert(s));
            }
        }
        for (i, a) in self.m.iter().enumerate() {
            if !a.alive {
                continue;
            }
            if let Spec::Comp = a.spec {
                for k in 0..3u8 {
                    if !a.pend[k as usize] && !(k == 0 && a.tgone) {
                        v.push(ROp::Ping(i, k));
                    }
                }
                if !a.tarmed && !a.tgone {
                    v.push(ROp::ArmChildRemove(i));
                }
                if c.top_ops {
                    if a.enabled {
                        v.push(ROp::Disable(i));
                        v.push(ROp::Update(i));
                    } else {
                        v.push(ROp::Enable(i));
                    }
                }
            }
            if let Spec::Scr { nsubs, life, .. } = a.spec {
                for k in 0..nsubs {
                    if !a.pend[k as usize] {
                        v.push(ROp::Ping(i, k));
                    }
                }
                if c.synth && life && a.synth.is_none() && a.enabled {
                    v.push(ROp::Synth(i, nsubs - 1));
                }
                if c.top_ops {
                    v.push(ROp::Remove(i));
                    if a.enabled {
                        v.push(ROp::Disable(i));
                        v.push(ROp::Update(i));
                    } else {
                        v.push(ROp::Enable(i));
                        if c.update_disabled && !a.loose && !a.broken {
                            v.push(ROp::Update(i));
                        }
                    }
                }
            }
        }
        if c.idles {
            if self.idles.len() < c.max_idles {
                v.push(ROp::InsertIdle);
            }
            for (k, i) in self.idles.iter().enumerate() {
                if i.st == IdleSt::Pending && !i.handle_dropped {
                    v.push(ROp::CancelIdle(k));
                    v.push(ROp::DropIdle(k));
                }
            }
            if !self.stop_requested {
                v.push(ROp::Stop);
            }
        }
        v
    }

    fn cb_menu(&self, me: Option<usize>, idle: Option<usize>) -> Vec<ROp> {
        let c = &self.cfg;
        let mut v = vec![];
        if let Some(me) = me {
            for &r in &c.cb_ret {
                v.push(ROp::Return(r));
            }
            if c.cb_defer {
                v.push(ROp::DeferDisable);
                v.push(ROp::DeferUpdate);
            }
            if c.cb_remove_self && self.m[me].alive {
                v.push(ROp::RemoveSelf);
                if self.m.len() < c.max_actors {
                    v.push(ROp::RemoveSelfReinsert);
                }
            }
        }
        if c.cb_others {
            for (i, a) in self.m.iter().enumerate() {
                if Some(i) == me || !a.alive || !matches!(a.spec, Spec::Scr { .. }) {
                    continue;
                }
                v.push(ROp::Remove(i));
                if a.enabled {
                    v.push(ROp::Disable(i));
                    v.push(ROp::Update(i));
                } else {
                    v.push(ROp::Enable(i));
                }
            }
        }
        if c.cb_idle_ops && c.idles {
            if self.idles.len() < c.max_idles {
                v.push(ROp::InsertIdle);
            }
            for (k, i) in self.idles.iter().enumerate() {
                if i.st == IdleSt::Pending && !i.handle_dropped && Some(k) != idle {
                    v.push(ROp::CancelIdle(k));
                }
            }
            if !self.stop_requested {
                v.push(ROp::Stop);
            }
        }
        v
    }

    // ---------------------------------------------------------------- callbacks

    pub fn on_timer(&mut self, id: usize) {
        self.callbacks += 1;
        self.log(format!("timer {id}"));
        let a = &mut self.m[id];
        if a.timer_fired || !a.alive {
            let (tf, al) = (a.timer_fired, a.alive);
            self.violate(&["C05", "C01"], "timer-fired-twice", &[], format!("timer {id} fired again (fired before: {tf}, alive: {al})"));
        }
        let a = &mut self.m[id];
        a.timer_fired = true;
        a.called = true;
        a.alive = false;
        a.enabled = false;
    }

    pub fn on_cb(&mut self, id: usize, sub: usize) -> Ret {
        self.callbacks += 1;
        self.clause("scripted-callback");
        let sh = self.rt[id].sh.clone();
        self.log(format!("cb {id} sub{sub}"));
        let lat_ok = self.m[id].lat_pe == Some(sh.pe.get()) && sh.in_pe.get();
        if !self.m[id].alive && !lat_ok {
            self.violate(&["C01", "C06"], "callback-after-removal", &[("kind", "Scripted".into())], format!("scripted source {id} called back after removal"));
        } else if self.m[id].alive && !self.m[id].enabled && !lat_ok && !self.m[id].loose && !self.m[id].broken {
            self.violate(&["C01", "C07"], "callback-while-disabled", &[("kind", "Scripted".into()), ("updated_while_disabled", "false".into())], format!("scripted source {id} called back while disabled"));
        }
        // cause: a ping on that sub, or the synthetic event owed to that sub
        let mut comp_child_removed = false;
        let a = &mut self.m[id];
        let mut legit = false;
        // synthetic events are dispatched before the polled ones; one cause per callback
        let is_scr = matches!(a.spec, Spec::Scr { .. });
        let synthetic = sh.last_synth.get();
        if is_scr && synthetic {
            // the scripted source tells which kind of event it was handed: exact attribution
            if a.synth_owed == Some(sub as u8) {
                a.synth_owed = None;
                a.synth_seen = true;
                legit = true;
            } else if a.synth_maybe == Some(sub as u8) {
                a.synth_maybe = None;
                a.synth_seen = true;
                legit = true;
            }
        } else if is_scr {
            if sub < a.pend.len() && a.pend[sub] {
                a.pend[sub] = false;
                legit = true;
            }
        } else if a.synth_owed == Some(sub as u8) {
            a.synth_owed = None;
            a.synth_seen = true;
            legit = true;
        } else if sub < a.pend.len() && a.pend[sub] {
            a.pend[sub] = false;
            legit = true;
        }
        if !legit {
            let shifted = self.m[id].shifted_in_batch;
            self.violate(&["C01", "C14"], "callback-without-cause", &[("kind", "Scripted".into()), ("sibling_sub_ids_shifted_in_batch", shifted.to_string())], format!("scripted source {id} got an event for sub {sub} without a ping or synthetic event"));
        }
        if matches!(self.m[id].spec, Spec::Comp) && sub == 0 && self.m[id].tarmed {
            // the transient child removes itself: the composite answers Reregister, and the
            // positional sub-ids of its siblings shift while their events may still be in the batch
            let a = &mut self.m[id];
            a.tarmed = false;
            a.tgone = true;
            comp_child_removed = true;
            if a.pend[1] || a.pend[2] {
                a.shifted_in_batch = true;
            }
        }
        self.m[id].called = true;
        let _ = comp_child_removed;
        if !self.idle_runs_this_dispatch.is_empty() {
            let ran = self.idle_runs_this_dispatch.clone();
            self.violate(&["C13"], "idle-before-events-done", &[], format!("source {id} was called back after idle(s) {ran:?} had already run in this dispatch"));
        }

        // deviations
        let mut ret = Ret::Continue;
        let mut defer: Option<ROp> = None;
        let mut removed_self = false;
        self.cur.push(id);
        for _ in 0..self.cfg.max_cb_ops {
            let menu = self.cb_menu(Some(id), None);
            if menu.is_empty() {
                break;
            }
            let c = explore::choose(menu.len() as u32 + 1, Kind::Dev);
            if c == 0 {
                break;
            }
            self.deviated = true;
            let op = menu[c as usize - 1];
            self.decoded.push(format!("  in cb of {id}: {op:?}"));
            self.note(format!("cbop {op:?}"));
            match op {
                ROp::Return(r) => {
                    ret = r;
                    break;
                }
                ROp::DeferDisable | ROp::DeferUpdate => {
                    let tok = self.rt[id].token.unwrap();
                    let r = if op == ROp::DeferDisable { self.h.disable(&tok) } else { self.h.update(&tok) };
                    if self.m[id].alive {
                        if let Err(e) = r {
                            self.violate(&["C08", "C09"], "deferred-request-rejected", &[], format!("{op:?} on the running source {id} returned {e:?}"));
                        } else if !(op == ROp::DeferUpdate && defer == Some(ROp::DeferDisable)) {
                            // a disable the source requested on itself stands ("takes effect when its
                            // current event processing finishes", C07): a later update() does not
                            // cancel it; any other sequence: the last request is the one applied
                            defer = Some(op);
                        }
                    }
                }
                ROp::RemoveSelf | ROp::RemoveSelfReinsert => {
                    let tok = self.rt[id].token.unwrap();
                    self.h.remove(tok);
                    removed_self = true;
                    let pe = sh.pe.get();
                    let a = &mut self.m[id];
                    a.alive = false;
                    a.enabled = false;
                    a.lat_pe = Some(pe);
                    if op == ROp::RemoveSelfReinsert {
                        let spec = self.m[id].spec;
                        self.insert(spec);
                    }
                }
                other => self.apply(other),
            }
        }
        self.cur.pop();

        // model effect of (ret, defer, removed_self)
        self.clause("post-action");
        let pe = sh.pe.get();
        let faults = self.cfg.faults;
        let a = &mut self.m[id];
        if removed_self {
            // the statement does not fix how the removal's own unregistration combines with a
            // requested Disable/Reregister: only the final state is required
            a.loose = true;
            if ret == Ret::Err {
                self.expect_err = true;
            }
        } else {
            let mut eff = match ret {
                Ret::Continue => match defer {
                    Some(ROp::DeferDisable) => Ret::Disable,
                    Some(ROp::DeferUpdate) => Ret::Reregister,
                    _ => Ret::Continue,
                },
                r => r,
            };
            if comp_child_removed && ret == Ret::Continue {
                // the composite itself answers Reregister because its transient child asked for it;
                // an explicit answer takes precedence over a deferred request
                eff = Ret::Reregister;
            }
            match eff {
                Ret::Continue => {}
                Ret::Reregister => {
                    a.rereg.0 += 1;
                    a.rereg.1 += 1;
                }
                Ret::Disable => {
                    a.unreg.0 += 1;
                    a.unreg.1 += 1;
                    a.enabled = false;
                    a.lat_pe = Some(pe);
                }
                Ret::Remove => {
                    a.unreg.0 += 1;
                    a.unreg.1 += 1;
                    a.alive = false;
                    a.enabled = false;
                    a.lat_pe = Some(pe);
                }
                Ret::Err => {
                    self.expect_err = true;
                    // a deferred self-request that was accepted may or may not still be applied
                    // to this source when its processing fails (never to another one)
                    match defer {
                        Some(ROp::DeferDisable) => {
                            a.unreg.1 += 1;
                            a.loose = true;
                        }
                        Some(ROp::DeferUpdate) => {
                            a.rereg.1 += 1;
                        }
                        _ => {}
                    }
                }
            }
            if faults && eff != Ret::Continue && eff != Ret::Err {
                // the post-action's registration call is a fault point: decided after the fact
                a.loose = true;
            }
        }
        ret
    }

    pub fn on_idle(&mut self, k: usize) {
        self.callbacks += 1;
        self.clause("idle-run");
        self.log(format!("idle {k}"));
        let dn = self.dispatch_no;
        let st = self.idles[k].st;
        if st != IdleSt::Pending {
            self.violate(&["C13"], if st == IdleSt::Cancelled { "cancelled-idle-ran" } else { "idle-ran-twice" }, &[], format!("idle {k} ran in state {st:?}"));
        }
        self.idle_phase = true;
        if self.idles[k].born_in_idle_phase == Some(dn) {
            self.violate(&["C13"], "idle-ran-in-same-dispatch-as-inserting-idle", &[], format!("idle {k} was inserted by an idle callback of dispatch {dn} and ran in that same dispatch"));
        }
        if let Some(&last) = self.idle_runs_this_dispatch.last() {
            if last > k {
                self.violate(&["C13"], "idle-order", &[], format!("idle {k} ran after idle {last} (insertion order violated)"));
            }
        }
        self.idle_runs_this_dispatch.push(k);
        self.idles[k].st = IdleSt::Ran;
        self.idles[k].ran_in = Some(dn);
        // deviations from inside the idle callback
        for _ in 0..self.cfg.max_cb_ops {
            let menu = self.cb_menu(None, Some(k));
            if menu.is_empty() {
                break;
            }
            let c = explore::choose(menu.len() as u32 + 1, Kind::Dev);
            if c == 0 {
                break;
            }
            self.deviated = true;
            let op = menu[c as usize - 1];
            self.decoded.push(format!("  in idle {k}: {op:?}"));
            self.apply(op);
        }
    }

    // ---------------------------------------------------------------- operations

    pub fn apply(&mut self, op: ROp) {
        self.transitions += 1;
        let in_cb = !self.cur.is_empty() || self.idle_phase;
        let _ = in_cb;
        match op {
            ROp::Insert(s) => self.insert(s),
            ROp::Ping(i, k) => {
                epoll::eventfd_write(self.rt[i].efds[k as usize].as_raw_fd(), 1);
                self.m[i].pend[k as usize] = true;
            }
            ROp::ArmChildRemove(i) => {
                self.rt[i].sh.child_remove.set(true);
                self.m[i].tarmed = true;
            }
            ROp::Synth(i, k) => {
                self.rt[i].sh.synth.set(Some(k as usize));
                self.m[i].synth = Some(k);
            }
            ROp::Remove(i) => {
                let tok = self.rt[i].token.unwrap();
                let f0 = self.rt[i].sh.reg_fail.get();
                self.h.remove(tok);
                let faulted = self.rt[i].sh.reg_fail.get() > f0;
                let a = &mut self.m[i];
                if a.enabled || a.loose {
                    a.unreg.1 += 1;
                    if a.enabled {
                        a.unreg.0 += 1;
                    }
                } else {
                    // removing a disabled source unregisters it once more (harmless for Generic)
                    a.unreg.1 += 1;
                    a.unreg.0 += 1;
                }
                a.alive = false;
                a.enabled = false;
                if self.in_dispatch {
                    a.disturbed = true;
                }
                if faulted {
                    a.loose = true;
                    a.op_fail += 1;
                    self.any_fault = true;
                }
            }
            ROp::Disable(i) | ROp::Enable(i) | ROp::Update(i) => {
                let tok = self.rt[i].token.unwrap();
                let f0 = self.rt[i].sh.reg_fail.get();
                self.rt[i].sh.late_fault.set(false);
                let r = match op {
                    ROp::Disable(_) => self.h.disable(&tok),
                    ROp::Enable(_) => self.h.enable(&tok),
                    _ => self.h.update(&tok),
                };
                let faulted = self.rt[i].sh.reg_fail.get() > f0;
                let in_dispatch = self.in_dispatch;
                let a = &mut self.m[i];
                match op {
                    ROp::Disable(_) => {
                        a.unreg.0 += 1;
                        a.unreg.1 += 1;
                        if in_dispatch {
                            // a synthetic event of this batch that has not been served yet reaches
                            // a disabled source and is dropped (disabled sources get nothing): the
                            // next callback of this source, if it is enabled again in time, is for
                            // its real event
                            if let Some(k) = a.synth_owed.take() {
                                a.synth_maybe = Some(k);
                            }
                        }
                    }
                    ROp::Enable(_) => {
                        a.reg.0 += 1;
                        a.reg.1 += 1;
                    }
                    _ => {
                        a.rereg.0 += 1;
                        a.rereg.1 += 1;
                    }
                }
                if in_dispatch {
                    a.disturbed = true;
                }
                let late = self.rt[i].sh.late_fault.replace(false);
                if faulted && !(late && matches!(op, ROp::Disable(_))) {
                    // any other failed call leaves the source half-way again
                    a.clean_unreg = false;
                }
                if faulted && late && matches!(op, ROp::Disable(_)) && !a.loose && !a.broken && !in_dispatch {
                    // the source did unregister everything and then reported an error: disable()
                    // returns it; the source is out of the poller and out of the lifecycle set
                    a.enabled = false;
                    a.clean_unreg = true;
                }
                if faulted {
                    a.enable_failed = matches!(op, ROp::Enable(_)) && !a.enabled && !a.loose && r.is_err();
                    a.loose = true;
                    a.broken = true;
                    a.op_fail += 1;
                    self.any_fault = true;
                    self.clause("failed-registration-call");
                    if r.is_ok() {
                        self.violate(&["C15"], "fault-swallowed", &[], format!("{op:?}: the registration step failed but the call returned Ok"));
                    }
                } else {
                    match (&r, a.loose || a.broken) {
                        (Err(e), false) => {
                            let msg = format!("{op:?} failed without an injected fault: {e:?}");
                            self.violate(&["C15", "C08"], "registration-call-failed", &[], msg);
                        }
                        _ => {}
                    }
                    let a = &mut self.m[i];
                    a.enable_failed = false;
                    if r.is_ok() {
                        match op {
                            ROp::Disable(_) => a.enabled = false,
                            ROp::Enable(_) => {
                                a.enabled = true;
                                a.lat_pe = None;
                                if a.clean_unreg && !in_dispatch {
                                    // registered afresh from a fully unregistered state: an
                                    // ordinary enabled source again, every clause applies
                                    a.clean_unreg = false;
                                    a.loose = false;
                                    a.broken = false;
                                }
                            }
                            _ => {}
                        }
                    }
                }
            }
            ROp::InsertIdle => {
                let k = self.idles.len();
                let idle = self.h.insert_idle(move |ctx: &mut RCtx| ctx.on_idle(k));
                self.idles.push(MIdle {
                    st: IdleSt::Pending,
                    born_in_idle_phase: if self.idle_phase { Some(self.dispatch_no) } else { None },
                    ran_in: None,
                    handle_dropped: false,
                });
                self.idle_handles.push(Some(idle));
            }
            ROp::CancelIdle(k) => {
                if let Some(h) = self.idle_handles[k].take() {
                    h.cancel();
                    self.idles[k].st = IdleSt::Cancelled;
                    self.idles[k].handle_dropped = true;
                }
            }
            ROp::DropIdle(k) => {
                self.idle_handles[k].take();
                self.idles[k].handle_dropped = true;
            }
            ROp::Stop => {
                self.signal.stop();
                self.stop_requested = true;
            }
            ROp::Dispatch | ROp::Return(_) | ROp::DeferDisable | ROp::DeferUpdate | ROp::RemoveSelf | ROp::RemoveSelfReinsert => unreachable!(),
        }
    }

    // ---------------------------------------------------------------- dispatch

    pub fn pre_dispatch(&mut self) {
        self.in_dispatch = true;
        self.idle_phase = false;
        self.dispatch_no += 1;
        self.idle_runs_this_dispatch.clear();
        self.expect_err = false;
        self.seq.borrow_mut().clear();
        for (i, a) in self.m.iter_mut().enumerate() {
            let sh = &self.rt[i].sh;
            a.called = false;
            a.disturbed = false;
            a.shifted_in_batch = false;
            a.bs0 = sh.bs.get();
            a.fail0 = sh.reg_fail.get();
            a.op_fail0 = a.op_fail;
            a.dead0 = !a.alive || a.enable_failed || (a.clean_unreg && !a.enabled);
            a.synth_maybe = None;
            a.bhe0 = sh.bhe.get();
            a.pe0 = sh.pe.get();
            a.synth_seen = false;
            let act = a.alive && a.enabled && !a.loose && !a.broken;
            a.owed = act && (a.pend.iter().any(|p| *p) || matches!(a.spec, Spec::PastTimer));
            if matches!(a.spec, Spec::PastTimer) {
                a.owed = a.alive && !a.timer_fired;
            }
            a.life_owed = act && matches!(a.spec, Spec::Scr { life: true, .. });
            a.synth_owed = if a.life_owed { a.synth.take() } else { None };
            a.synth_owed_at_start = a.synth_owed;
            if a.owed || a.life_owed {
                let ready: Vec<u8> = a.pend.iter().enumerate().filter(|(_, p)| **p).map(|(k, _)| k as u8).collect();
                self.pend_at_wait.insert(i, ready);
            } else {
                self.pend_at_wait.remove(&i);
            }
            if !a.life_owed {
                // a synthetic request on a source that is not polled this time stays armed in the source
            }
        }
    }

    pub fn post_dispatch(&mut self, res: &Result<(), String>, waits: &[seqhooks::WaitRec]) {
        self.in_dispatch = false;
        self.idle_phase = false;
        // a registration call made by the loop for a post-action was made to fail: the error is
        // reported by this dispatch and that source is left half-way (its own business)
        for i in 0..self.m.len() {
            let by_ops = self.m[i].op_fail - self.m[i].op_fail0;
            if self.rt[i].sh.reg_fail.get() > self.m[i].fail0 + by_ops {
                self.m[i].broken = true;
                self.m[i].loose = true;
                self.any_fault = true;
                self.expect_err = true;
                self.clause("failed-registration-call");
            }
        }
        let ok = res.is_ok();
        self.clause("dispatch-end");
        if let Err(e) = res {
            self.err_dispatches += 1;
            if !self.expect_err && !self.any_fault {
                self.violate(&["C15", "C08"], "dispatch-error", &[], format!("dispatch failed although no source failed: {e}"));
            }
        } else if self.expect_err {
            self.violate(&["C15"], "error-not-reported", &[], "a source's event processing returned an error but dispatch returned Ok".into());
        }
        let seq = self.seq.borrow().clone();
        let n = self.m.len();
        let any_synth = self.m.iter().any(|a| a.synth_owed.is_some() || a.synth_seen);
        for i in 0..n {
            let a = self.m[i].clone();
            let sh = self.rt[i].sh.clone();
            // ---- C14 lifecycle hooks
            if let Spec::Scr { life: true, .. } = a.spec {
                self.clause("lifecycle");
                let dbs = sh.bs.get() - a.bs0;
                let dbhe = sh.bhe.get() - a.bhe0;
                let dup = {
                    let key = sh.reg_key.get();
                    let st = self.h.verif_stats();
                    key.map(|k| st.lifecycle.iter().filter(|x| **x == k).count()).unwrap_or(0)
                };
                if a.life_owed && ok {
                    if dbs != 1 || dbhe != 1 {
                        self.violate(&["C14"], "lifecycle-hook-count", &[("before_sleep", dbs.to_string()), ("before_handle_events", dbhe.to_string())],
                            format!("lifecycle source {i}: before_sleep called {dbs}x and before_handle_events {dbhe}x in one dispatch (lifecycle-set multiplicity now {dup})"));
                    }
                    // order: its before_sleep, then its before_handle_events, before any process_events
                    let first_pe = seq.iter().position(|e| e.1 == "pe");
                    let my_bhe = seq.iter().position(|e| *e == (i, "bhe"));
                    let my_bs = seq.iter().position(|e| *e == (i, "bs"));
                    if let (Some(bs), Some(bhe)) = (my_bs, my_bhe) {
                        if bs > bhe || first_pe.map(|p| p < bhe).unwrap_or(false) {
                            self.violate(&["C14"], "lifecycle-order", &[], format!("lifecycle source {i}: hook order violated: {seq:?}"));
                        }
                    }
                    // iterator: exactly the real polled events of this source
                    if dbhe >= 1 {
                        let key = sh.reg_key.get().unwrap();
                        let seen: Vec<u16> = sh.bhe_seen.borrow().iter().map(|t| calloop::verif::key_to_fields(calloop::verif::token_key(t)).2).collect();
                        let foreign = sh.bhe_seen.borrow().iter().any(|t| {
                            let f = calloop::verif::key_to_fields(calloop::verif::token_key(t));
                            let me = calloop::verif::key_to_fields(key);
                            (f.0, f.1) != (me.0, me.1)
                        });
                        let tshift = if matches!(a.spec, Spec::Scr { timer: true, .. }) { 1u16 } else { 0 };
                        // real ready subs when the wait began = pend flags at pre_dispatch... recorded as owed pend
                        let mut want: Vec<u16> = self.pend_at_wait.get(&i).cloned().unwrap_or_default().iter().map(|k| *k as u16 + tshift).collect();
                        want.sort();
                        let mut got = seen.clone();
                        got.sort();
                        if foreign || got != want {
                            self.violate(&["C14"], "lifecycle-iterator", &[("foreign", foreign.to_string())],
                                format!("lifecycle source {i}: before_handle_events iterator yielded sub-ids {seen:?}, expected exactly the real polled events {want:?}"));
                        }
                    }
                } else if (a.loose || a.broken) && self.m[i].spec == a.spec && (dbs > 1 || dbhe > 1 || (a.dead0 && (dbs != 0 || dbhe != 0))) {
                    // After a failed registration call the source's own registration state is its
                    // business, but it is still one source: never more than one call of each hook per
                    // dispatch, and none at all once it is removed or while it is still disabled
                    // because the enable() that would have brought it back returned an error.
                    let state = if !a.dead0 { "after failed call" } else if !a.alive { "removed" } else if a.clean_unreg { "disabled (disable reported an error after unregistering)" } else { "disabled (enable failed)" };
                    self.violate(&["C14", "C15"], "lifecycle-after-failed-call", &[("state", state.into())],
                        format!("lifecycle source {i} ({state}) got before_sleep {dbs}x / before_handle_events {dbhe}x in one dispatch (lifecycle-set multiplicity now {dup})"));
                } else if !a.life_owed && !a.loose && !a.broken && !a.disturbed && (dbs != 0 || dbhe != 0) && self.m[i].spec == a.spec {
                    // disabled / removed / rejected sources receive neither
                    let why = if a.rejected { "rejected" } else if !a.alive { "removed" } else { "disabled" };
                    self.violate(&["C14"], "lifecycle-hook-on-inactive", &[("state", why.into())],
                        format!("lifecycle source {i} is {why} but got before_sleep {dbs}x / before_handle_events {dbhe}x"));
                }
                if ok && a.life_owed {
                    if let Some(k) = a.synth_owed_at_start {
                        // a synthetic event forces a zero timeout and is delivered in the same dispatch
                        if let Some(w) = waits.first() {
                            if w.requested != Some(Duration::ZERO) {
                                self.violate(&["C14", "C12"], "synthetic-did-not-force-zero-timeout", &[], format!("before_sleep returned a synthetic event but the poller was asked to wait {:?}", w.requested));
                            }
                        }
                        if !self.m[i].synth_seen && !a.disturbed && !self.expect_err {
                            self.violate(&["C14"], "synthetic-not-delivered", &[], format!("lifecycle source {i}: the synthetic event for sub {k} was not delivered in the same dispatch"));
                        }
                    }
                }
            }
            // ---- owed callbacks (C02 / C15: other sources lose nothing)
            if ok && a.owed && !a.disturbed && !self.m[i].called && !self.m[i].shifted_in_batch {
                let kind = if matches!(a.spec, Spec::PastTimer) { "Timer" } else { "Scripted" };
                self.violate(&["C02", "C15"], "owed-not-called", &[("kind", kind.into())], format!("actor {i} ({kind}) had a pending cause, was not disturbed, and was not called in an Ok dispatch"));
            }
        }
        let _ = any_synth;
        // ---- C13 idles
        if self.cfg.idles {
            self.clause("idles");
            let dn = self.dispatch_no;
            for k in 0..self.idles.len() {
                let i = self.idles[k].clone();
                if ok && i.st == IdleSt::Pending && i.born_in_idle_phase != Some(dn) {
                    self.violate(&["C13"], "idle-not-run", &[], format!("idle {k} was pending when dispatch {dn} returned Ok but did not run"));
                }
                if !ok && i.ran_in == Some(dn) {
                    self.violate(&["C13"], "idle-ran-in-failed-dispatch", &[], format!("idle {k} ran in dispatch {dn} which returned an error"));
                }
            }
        }
    }

    pub fn after_step(&mut self) {
        let stats = self.h.verif_stats();
        // registration call counters within the expected ranges; nobody else touched
        self.clause("registration-counters");
        for i in 0..self.m.len() {
            let a = self.m[i].clone();
            let sh = self.rt[i].sh.clone();
            if a.rejected || matches!(a.spec, Spec::PastTimer) {
                continue;
            }
            if a.broken {
                if !a.alive && (sh.src_dropped.get() != 1 || sh.cb_dropped.get() != 1) {
                    self.violate(&["C06", "C15"], "not-released", &[("kind", "Scripted".into())], format!("removed source {i} was not released"));
                }
                continue;
            }
            let got = (sh.reg.get(), sh.rereg.get(), sh.unreg.get());
            let inr = |v: u32, r: (u32, u32)| v >= r.0 && v <= r.1;
            if !a.loose && !(inr(got.0, a.reg) && inr(got.1, a.rereg) && inr(got.2, a.unreg)) {
                self.violate(&["C09"], "registration-calls", &[("who", "self".into())],
                    format!("source {i}: register/reregister/unregister calls = {got:?}, expected {:?}/{:?}/{:?}", a.reg, a.rereg, a.unreg));
                // resynchronise so that one fault is reported once
                let a = &mut self.m[i];
                a.reg = (got.0, got.0);
                a.rereg = (got.1, got.1);
                a.unreg = (got.2, got.2);
            } else if a.loose {
                // latitude: resynchronise with the implementation, within the upper bounds
                if got.1 > a.rereg.1 + 1 || got.2 > a.unreg.1 + 2 {
                    self.violate(&["C09"], "registration-calls", &[("who", "loose".into())],
                        format!("source {i}: far more registration calls than any reading allows: {got:?} vs {:?}/{:?}/{:?}", a.reg, a.rereg, a.unreg));
                }
                let a = &mut self.m[i];
                a.reg = (got.0, got.0);
                a.rereg = (got.1, got.1);
                a.unreg = (got.2, got.2);
                if a.alive {
                    a.enabled = sh.registered.get();
                }
                if a.alive {
                    a.loose = false;
                }
            }
            let a = self.m[i].clone();
            // released exactly once
            let (sd, cd) = (sh.src_dropped.get(), sh.cb_dropped.get());
            if !a.alive && (sd != 1 || cd != 1) {
                self.violate(&["C06", "C09"], "not-released", &[("kind", "Scripted".into())], format!("removed source {i}: source dropped {sd}x, callback {cd}x"));
            }
            if a.alive && (sd != 0 || cd != a.retried as u32) {
                self.violate(&["C06"], "dropped-while-inserted", &[], format!("inserted source {i} was dropped"));
            }
            if !a.alive && sh.registered.get() && !self.any_fault {
                self.violate(&["C09", "C16"], "removed-but-registered", &[], format!("source {i} was removed but never unregistered"));
            }
        }
        // a timer child of an inserted, enabled source is armed under that source's current registration
        for i in 0..self.m.len() {
            let a = &self.m[i];
            if let (Spec::Scr { timer: true, .. }, true, true, false, false) = (a.spec, a.alive, a.enabled, a.loose, a.broken) {
                if let Some(key) = self.rt[i].sh.reg_key.get() {
                    let me = calloop::verif::key_to_fields(key);
                    let mine = stats.timers.iter().filter(|t| {
                        let f = calloop::verif::key_to_fields(t.1);
                        (f.0, f.1) == (me.0, me.1)
                    }).count();
                    self.clause("timer-child-armed");
                    if mine != 1 {
                        let keys: Vec<_> = stats.timers.iter().map(|t| calloop::verif::key_to_fields(t.1)).collect();
                        self.violate(&["C15", "C05"], "timer-child-not-armed", &[("entries", mine.to_string())],
                            format!("source {i} is inserted and enabled with an armed timer child, but the timer heap holds {mine} entries for its registration {me:?} (heap tokens: {keys:?}): its timeout would never be delivered"));
                    }
                }
            }
        }
        if stats.pending_action != PostAction::Continue {
            self.violate(&["C09"], "deferred-cell-leak", &[], format!("deferred post-action cell holds {:?} between dispatches", stats.pending_action));
        }
        // lifecycle set == model
        let mut want: Vec<usize> = self
            .m
            .iter()
            .enumerate()
            .filter(|(_, a)| a.alive && a.enabled && matches!(a.spec, Spec::Scr { life: true, .. }))
            .filter_map(|(i, _)| self.rt[i].sh.reg_key.get())
            .collect();
        want.sort();
        let mut got = stats.lifecycle.clone();
        got.sort();
        let any_loose = self.m.iter().any(|a| a.loose || a.broken);
        if got != want && !any_loose && !self.any_fault {
            self.clause("lifecycle-set");
            self.violate(&["C14"], "lifecycle-set", &[("dup", (got.len() > want.len()).to_string())], format!("lifecycle set holds {got:?}, the model expects exactly {want:?}"));
        }
        let occupied = stats.slots.iter().filter(|s| s.1).count();
        let alive = self.m.iter().filter(|a| a.alive).count();
        if occupied != alive {
            self.violate(&["C06", "C15"], "slot-count", &[], format!("{occupied} occupied slots but the model has {alive} inserted sources"));
        }
    }

    pub fn fingerprint(&self) -> u64 {
        let mut h = std::collections::hash_map::DefaultHasher::new();
        self.m.hash(&mut h);
        self.idles.hash(&mut h);
        for r in &self.rt {
            r.sh.registered.get().hash(&mut h);
            r.sh.synth.get().hash(&mut h);
        }
        let s = self.h.verif_stats();
        for sl in &s.slots {
            (sl.0, sl.1).hash(&mut h);
        }
        s.lifecycle.hash(&mut h);
        s.timers.len().hash(&mut h);
        s.idles.hash(&mut h);
        for e in epoll::table_raw(self.epfd) {
            (e.fd - self.epfd, e.events, e.data).hash(&mut h);
        }
        self.any_fault.hash(&mut h);
        self.stop_requested.hash(&mut h);
        h.finish()
    }
}

/// Run one history under the thread-local tape.
pub fn run_history(cfg: &Rc<RCfg>, verbose: bool) -> (Outcome, Option<Vec<String>>) {
    seqhooks::reset();
    let mut el: EventLoop<'static, RCtx> = EventLoop::try_new().expect("event loop");
    let epfd = el.as_raw_fd();
    let mut ctx = RCtx {
        h: el.handle(),
        signal: el.get_signal(),
        stop_requested: false,
        cfg: cfg.clone(),
        m: vec![],
        rt: vec![],
        idles: vec![],
        idle_handles: vec![],
        epfd,
        in_dispatch: false,
        idle_phase: false,
        dispatch_no: 0,
        idle_runs_this_dispatch: vec![],
        cur: vec![],
        depth_used: 0,
        violations: vec![],
        decoded: vec![],
        obs: std::collections::hash_map::DefaultHasher::new(),
        transitions: 0,
        callbacks: 0,
        deviated: false,
        clauses: vec![],
        verbose: if verbose { Some(vec![]) } else { None },
        seq: Rc::new(RefCell::new(vec![])),
        expect_err: false,
        any_fault: false,
        poisoned: false,
        err_dispatches: 0,
        pend_at_wait: BTreeMap::new(),
    };
    let initial = if cfg.initial_sets.len() > 1 {
        let c = explore::choose(cfg.initial_sets.len() as u32, Kind::Free);
        ctx.decoded.push(format!("initial {:?}", cfg.initial_sets[c as usize]));
        cfg.initial_sets[c as usize].clone()
    } else {
        cfg.initial_sets.first().cloned().unwrap_or_default()
    };
    // the initial population is inserted without fault points
    for &s in &initial {
        let f = cfg.faults;
        ctx.insert_nofault(s, f);
    }
    ctx.after_step();
    loop {
        let menu = ctx.top_menu();
        let c = explore::choose(menu.len() as u32 + 1, Kind::Top);
        if c == 0 {
            break;
        }
        let op = menu[c as usize - 1];
        ctx.depth_used += 1;
        ctx.decoded.push(format!("{op:?}"));
        ctx.note(format!("op {op:?}"));
        if !step(&mut el, &mut ctx, op) {
            break;
        }
    }
    let fp = if ctx.poisoned { None } else { Some(ctx.fingerprint()) };
    // closing dispatches without fault injection: everything owed must still arrive
    for a in ctx.rt.iter() {
        a.sh.faults_on.set(false);
    }
    let mut closing_cfg = (*ctx.cfg).clone();
    closing_cfg.faults = false;
    ctx.cfg = Rc::new(closing_cfg);
    for _ in 0..cfg.final_dispatches {
        if ctx.poisoned {
            break;
        }
        if !step(&mut el, &mut ctx, ROp::Dispatch) {
            break;
        }
    }
    // after the closing dispatches every armed expired timer must have fired (C15: an error in one
    // source loses none of the others' armed timers)
    if !ctx.poisoned && cfg.final_dispatches >= 2 {
        for i in 0..ctx.m.len() {
            let a = ctx.m[i].clone();
            if matches!(a.spec, Spec::PastTimer) && !a.timer_fired && !a.rejected {
                let errs = ctx.err_dispatches;
                ctx.violate(&["C15", "C05"], "timer-lost", &[("after_error_dispatch", (errs > 0).to_string())],
                    format!("timer {i} was armed with a past deadline and never fired although {} closing dispatches returned Ok ({errs} earlier dispatches returned an error)", cfg.final_dispatches));
            }
        }
    }
    let RCtx { h, mut violations, decoded, obs, transitions, callbacks, deviated, clauses, verbose, depth_used, rt, m, idle_handles, poisoned, .. } = ctx;
    drop(idle_handles);
    drop(h);
    drop(el);
    if !poisoned {
        for (i, r) in rt.iter().enumerate() {
            if matches!(m[i].spec, Spec::PastTimer) {
                continue;
            }
            let (sd, cd) = (r.sh.src_dropped.get(), r.sh.cb_dropped.get());
            if sd != 1 || cd != 1 {
                violations.push(Violation {
                    props: vec!["C06".into()],
                    clause: "release-at-loop-drop".into(),
                    features: BTreeMap::new(),
                    message: format!("after dropping the loop source {i} has source drops={sd}, callback drops={cd}"),
                    tape: vec![],
                    decoded: vec![],
                });
            }
        }
    }
    if let Some(tag) = cfg.tag_all {
        for v in violations.iter_mut() {
            if !v.props.iter().any(|p| p == tag) {
                v.props.push(tag.to_string());
            }
        }
    }
    let out = Outcome {
        violations,
        fingerprint: fp,
        observation: obs.finish(),
        nontrivial: callbacks > 0 && deviated,
        transitions,
        depth_used,
        clauses,
        decoded,
        callbacks,
    };
    (out, verbose)
}

impl RCtx {
    fn insert_nofault(&mut self, s: Spec, restore: bool) {
        let mut c = (*self.cfg).clone();
        c.faults = false;
        let old = std::mem::replace(&mut self.cfg, Rc::new(c));
        self.insert(s);
        self.cfg = old;
        if let Some(r) = self.rt.last() {
            r.sh.faults_on.set(restore);
        }
    }
}

fn step(el: &mut EventLoop<'static, RCtx>, ctx: &mut RCtx, op: ROp) -> bool {
    match op {
        ROp::Dispatch => {
            ctx.transitions += 1;
            ctx.pre_dispatch();
            let _ = seqhooks::take_waits();
            let r = catch_unwind(AssertUnwindSafe(|| el.dispatch(Some(Duration::from_secs(1)), ctx)));
            let waits = seqhooks::take_waits();
            match r {
                Ok(r) => {
                    let r = r.map_err(|e| format!("{e}"));
                    ctx.log(format!("dispatch {}", if r.is_ok() { "ok" } else { "err" }));
                    ctx.post_dispatch(&r, &waits);
                }
                Err(p) => {
                    let msg = p
                        .downcast_ref::<String>()
                        .cloned()
                        .or_else(|| p.downcast_ref::<&str>().map(|s| s.to_string()))
                        .unwrap_or_else(|| "panic".into());
                    ctx.in_dispatch = false;
                    ctx.cur.clear();
                    ctx.poisoned = true;
                    let af = ctx.any_fault;
                    ctx.violate(&["C08", "C15"], "panic-in-dispatch", &[("after_fault", af.to_string())], format!("dispatch panicked: {msg}"));
                    return false;
                }
            }
        }
        other => {
            let r = catch_unwind(AssertUnwindSafe(|| ctx.apply(other)));
            if let Err(p) = r {
                let msg = p
                    .downcast_ref::<String>()
                    .cloned()
                    .or_else(|| p.downcast_ref::<&str>().map(|s| s.to_string()))
                    .unwrap_or_else(|| "panic".into());
                ctx.poisoned = true;
                ctx.violate(&["C08", "C15"], "panic-in-operation", &[], format!("{other:?} panicked: {msg}"));
                return false;
            }
        }
    }
    ctx.after_step();
    true
}
