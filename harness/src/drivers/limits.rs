//! Sequential size drivers with the *real* constants (no batch-limit hook):
//!
//! * `limit`  — channel / sync channel / executor / stream source with 0, 1, 1023, 1024, 1025 and 2049 queued
//!              items: a bounded batch per dispatch never strands the remainder (C02, C04, C10);
//! * `manyready` — k in {2, 17, 256, 1000, 1024, 1500} simultaneously ready sources of mixed kinds:
//!              every one of them is called in the dispatch that found them ready (C02);
//! * `wait-real` — a handful of (timeout, timer) configurations in real time with no hooks
//!              installed: conformance sample for the wait seam of C12 (a sanity sample, not a verdict
//!              about latency: tolerance 60 ms).
//!
//! * `idle-burst` — n1 idle callbacks in one dispatch, then n2 in the next one of which one inserts a
//!              follow-up idle that inserts another (n1, n2 in 1..=12, every position): the size
//!              history of the idle queue must not matter (C13, C08).
//!
//! * `slot-wrap` — one slot reused k times (k up to 65535, the bound of C01 / C06) while a token of
//!              its first occupant is outstanding: the old token never designates the newcomer.
//!
//! * `block-on-idle` — block_on with idles queued before it / from the future's poll / from a source
//!              callback, with and without a source event in the same iteration: idles run after
//!              the events of their iteration, in insertion order, once (C13 under block_on).
//!
//! These spaces are small and enumerated completely: (kind x size x handler variant).

use std::cell::Cell;
use std::collections::BTreeMap;
use std::rc::Rc;
use std::time::{Duration, Instant};

use calloop::channel::{channel, sync_channel, Event};
use calloop::futures::executor;
use calloop::ping::make_ping;
use calloop::timer::{TimeoutAction, Timer};
use calloop::{EventLoop, LoopHandle};

use crate::explore::{Report, Violation};
use crate::seqhooks;

fn viol(props: &[&str], clause: &str, feats: &[(&str, String)], msg: String) -> Violation {
    let mut features = BTreeMap::new();
    for (k, v) in feats {
        features.insert(k.to_string(), v.clone());
    }
    Violation {
        props: props.iter().map(|s| s.to_string()).collect(),
        clause: clause.into(),
        features,
        message: msg,
        tape: vec![],
        decoded: vec![],
    }
}

fn epoll_readable(el: &EventLoop<'static, Vec<u32>>) -> bool {
    seqhooks::fd_readable(std::os::fd::AsRawFd::as_raw_fd(el))
}

const SIZES: [usize; 7] = [0, 1, 2, 1023, 1024, 1025, 2049];

pub fn limit() -> Report {
    seqhooks::install();
    let start = Instant::now();
    let mut rep = Report { driver: "limit".into(), exhaustive: true, ..Default::default() };
    let mut outcomes = std::collections::HashSet::new();
    // kind: 0 channel, 1 sync_channel(n + 476), 2 executor (ready tasks), 3 executor scheduling from the callback, 4 stream source
    crate::quiet_panics();
    for kind in 0..5 {
        for &n in SIZES.iter() {
            let snapshot = rep.violations.len();
            let r = std::panic::catch_unwind(std::panic::AssertUnwindSafe(|| {
            seqhooks::reset();
            let mut el: EventLoop<'static, Vec<u32>> = EventLoop::try_new().unwrap();
            let h: LoopHandle<'static, Vec<u32>> = el.handle();
            let closed = Rc::new(Cell::new(0u32));
            let mut keep_sched = None;
            let mut keep_tx = None;
            let mut keep_stx = None;
            match kind {
                0 => {
                    let (tx, rx) = channel::<u32>();
                    let c = closed.clone();
                    h.insert_source(rx, move |ev, _, got: &mut Vec<u32>| match ev {
                        Event::Msg(v) => got.push(v),
                        Event::Closed => c.set(c.get() + 1),
                    })
                    .unwrap();
                    for i in 0..n {
                        tx.send(i as u32).unwrap();
                    }
                    keep_tx = Some(tx);
                }
                1 => {
                    let (tx, rx) = sync_channel::<u32>(n + 476);
                    let c = closed.clone();
                    h.insert_source(rx, move |ev, _, got: &mut Vec<u32>| match ev {
                        Event::Msg(v) => got.push(v),
                        Event::Closed => c.set(c.get() + 1),
                    })
                    .unwrap();
                    for i in 0..n {
                        tx.try_send(i as u32).unwrap();
                    }
                    keep_stx = Some(tx);
                }
                4 => {
                    // a stream with n items available at once, then the end of the stream
                    let src = calloop::stream::StreamSource::new(futures::stream::iter(0..n as u32)).unwrap();
                    h.insert_source(src, move |ev, _, got: &mut Vec<u32>| got.push(ev.unwrap_or(u32::MAX))).unwrap();
                }
                _ => {
                    let (exec, sched) = executor::<u32>().unwrap();
                    let s2 = sched.clone();
                    let extra = kind == 3;
                    h.insert_source(exec, move |v, _, got: &mut Vec<u32>| {
                        got.push(v);
                        if extra && v == 0 {
                            // scheduling from inside the callback while a large batch is being run
                            let _ = s2.schedule(async { 1_000_000u32 });
                        }
                    })
                    .unwrap();
                    for i in 0..n {
                        sched.schedule(async move { i as u32 }).unwrap();
                    }
                    keep_sched = Some(sched);
                }
            }
            let expect_total = n + if (kind == 3 && n > 0) || kind == 4 { 1 } else { 0 };
            let mut got: Vec<u32> = vec![];
            let mut per_dispatch = vec![];
            let mut stranded = false;
            for round in 0..6 {
                let before = got.len();
                let readable = epoll_readable(&el);
                if got.len() < expect_total && !readable {
                    // items remain queued but nothing would wake the loop
                    stranded = true;
                    rep.violations.push(viol(
                        &["C02", "C04", "C10"],
                        "remainder-stranded",
                        &[("kind", kind.to_string()), ("n", n.to_string())],
                        format!("kind {kind}, {n} items: after {round} dispatches {} of {expect_total} were delivered and the poller is not readable: the rest is stranded", got.len()),
                    ));
                    break;
                }
                el.dispatch(Some(Duration::ZERO), &mut got).unwrap();
                per_dispatch.push(got.len() - before);
                rep.transitions += 1;
                if got.len() - before > 1025 && kind != 4 {
                    rep.violations.push(viol(&["C02"], "batch-unbounded", &[("kind", kind.to_string())], format!("kind {kind}: one dispatch delivered {} items (limit 1024)", got.len() - before)));
                }
            }
            rep.executions += 1;
            *rep.clause_counts.entry("batch-limit".into()).or_insert(0) += 1;
            outcomes.insert((kind, per_dispatch.clone()));
            if !stranded {
                let mut want: Vec<u32> = (0..n as u32).collect();
                if kind == 3 && n > 0 {
                    want.push(1_000_000);
                }
                if kind == 4 {
                    want.push(u32::MAX); // the end of the stream, exactly once and last
                }
                let mut sorted = got.clone();
                sorted.sort();
                let in_order = kind == 2 || kind == 3 || got == want; // executor outputs follow completion order = schedule order, checked as a set
                if sorted != want || !in_order {
                    rep.violations.push(viol(
                        &["C04", "C10", "C02"],
                        "items-lost-or-duplicated",
                        &[("kind", kind.to_string()), ("n", n.to_string())],
                        format!("kind {kind}, {n} items: delivered {} items over dispatches {per_dispatch:?} (in order: {in_order})", got.len()),
                    ));
                }
                // afterwards: idle, not readable (no spinning)
                if epoll_readable(&el) {
                    el.dispatch(Some(Duration::ZERO), &mut got).unwrap();
                    if epoll_readable(&el) {
                        rep.violations.push(viol(&["C12", "C02"], "spurious-readiness", &[("kind", kind.to_string())], format!("kind {kind}, {n} items: the poller stays readable although everything was delivered")));
                    }
                }
            }
            if rep.samples.len() < 6 && n >= 1024 {
                let kname = ["channel", "sync_channel", "executor", "executor+schedule-in-callback", "stream"][kind];
                rep.samples.push(serde_json::json!({"kind": kname, "items": n, "delivered_per_dispatch": per_dispatch}));
            }
            // closing the channel afterwards: exactly one Closed
            if kind <= 1 {
                drop(keep_tx.take());
                drop(keep_stx.take());
                for _ in 0..3 {
                    el.dispatch(Some(Duration::ZERO), &mut got).unwrap();
                }
                if closed.get() != 1 {
                    rep.violations.push(viol(&["C04"], "closed-count", &[("count", closed.get().to_string())], format!("kind {kind}, {n} items: Closed delivered {} times", closed.get())));
                }
            }
            drop(keep_sched);
            }));
            if let Err(p) = r {
                let msg = p.downcast_ref::<String>().cloned().or_else(|| p.downcast_ref::<&str>().map(|s| s.to_string())).unwrap_or_else(|| "panic".into());
                rep.violations.truncate(snapshot.max(0));
                rep.violations.push(viol(&["C02", "C04", "C10", "C08"], "panic-in-dispatch", &[("kind", kind.to_string())], format!("kind {kind}, {n} items: the loop panicked: {msg}")));
                rep.executions += 1;
            }
        }
    }
    rep.states = rep.executions;
    rep.distinct_outcomes = outcomes.len() as u64;
    rep.distinct_nontrivial = outcomes.iter().filter(|o| o.1.iter().filter(|x| **x > 0).count() > 1).count() as u64;
    rep.violation_count = rep.violations.len() as u64;
    rep.levels_completed = vec![0];
    rep.wall_s = start.elapsed().as_secs_f64();
    rep
}

pub fn manyready() -> Report {
    seqhooks::install();
    crate::quiet_panics();
    let start = Instant::now();
    let mut rep = Report { driver: "manyready".into(), exhaustive: true, ..Default::default() };
    let mut outcomes = std::collections::HashSet::new();
    for &k in [2usize, 17, 256, 1000, 1024, 1025, 1500].iter() {
        // mix: 0 all pings; 1 pings + channels + expired timers interleaved
        for mix in 0..2 {
            let r = std::panic::catch_unwind(std::panic::AssertUnwindSafe(|| {
            seqhooks::reset();
            let mut el: EventLoop<'static, Vec<u32>> = EventLoop::try_new().unwrap();
            let h = el.handle();
            let mut keep: Vec<Box<dyn std::any::Any>> = vec![];
            for i in 0..k {
                let id = i as u32;
                match if mix == 0 { 0 } else { i % 3 } {
                    0 => {
                        let (p, s) = make_ping().unwrap();
                        h.insert_source(s, move |_, _, got: &mut Vec<u32>| got.push(id)).unwrap();
                        p.ping();
                        keep.push(Box::new(p));
                    }
                    1 => {
                        let (tx, rx) = channel::<u32>();
                        h.insert_source(rx, move |ev, _, got: &mut Vec<u32>| {
                            if let Event::Msg(_) = ev {
                                got.push(id)
                            }
                        })
                        .unwrap();
                        tx.send(1).unwrap();
                        keep.push(Box::new(tx));
                    }
                    _ => {
                        h.insert_source(Timer::from_deadline(seqhooks::base() - Duration::from_secs(1)), move |_, _, got: &mut Vec<u32>| {
                            got.push(id);
                            TimeoutAction::Drop
                        })
                        .unwrap();
                    }
                }
            }
            let mut got = vec![];
            let mut dispatches = 0;
            // the poller hands out at most 1024 fd events per wait: what was ready must be served
            // within ceil(k_fd / 1024) dispatches, and every dispatch must make progress
            while got.len() < k && dispatches < 4 {
                let before = got.len();
                el.dispatch(Some(Duration::ZERO), &mut got).unwrap();
                dispatches += 1;
                rep.transitions += 1;
                if got.len() == before {
                    break;
                }
            }
            let mut sorted = got.clone();
            sorted.sort();
            sorted.dedup();
            let fd_sources = if mix == 0 { k } else { k - k / 3 };
            let allowed = (fd_sources + 1023) / 1024;
            if sorted.len() != k || got.len() != k {
                rep.violations.push(viol(&["C02"], "ready-source-not-called", &[("k", k.to_string())], format!("{k} ready sources (mix {mix}): {} distinct callbacks, {} calls after {dispatches} dispatches", sorted.len(), got.len())));
            } else if dispatches > allowed.max(1) {
                rep.violations.push(viol(&["C02"], "ready-source-starved", &[("k", k.to_string())], format!("{k} ready sources (mix {mix}) needed {dispatches} dispatches, at most {} allowed by the poller batch size", allowed.max(1))));
            }
            rep.executions += 1;
            *rep.clause_counts.entry("many-ready".into()).or_insert(0) += 1;
            outcomes.insert((k, mix, dispatches));
            if rep.samples.len() < 4 {
                rep.samples.push(serde_json::json!({"ready_sources": k, "mix": mix, "dispatches_needed": dispatches}));
            }
            drop(keep);
            }));
            if let Err(p) = r {
                let msg = p.downcast_ref::<String>().cloned().or_else(|| p.downcast_ref::<&str>().map(|s| s.to_string())).unwrap_or_else(|| "panic".into());
                rep.violations.push(viol(&["C02", "C08"], "panic-in-dispatch", &[("k", k.to_string())], format!("{k} ready sources (mix {mix}): the loop panicked: {msg}")));
                rep.executions += 1;
            }
        }
    }
    rep.states = rep.executions;
    rep.distinct_outcomes = outcomes.len() as u64;
    rep.distinct_nontrivial = outcomes.len() as u64;
    rep.violation_count = rep.violations.len() as u64;
    rep.levels_completed = vec![0];
    rep.wall_s = start.elapsed().as_secs_f64();
    rep
}

/// Real-time conformance sample for the wait seam (no hooks installed).
pub fn wait_real() -> Report {
    calloop::verif::install(None);
    let start = Instant::now();
    let mut rep = Report { driver: "wait-real".into(), exhaustive: true, ..Default::default() };
    // generous: the exact statement is decided in virtual time; this only shows that the seam
    // models the kernel. The fastest of three attempts counts, so that a loaded machine cannot
    // raise an alarm.
    let tol = Duration::from_millis(250);
    let ms = Duration::from_millis;
    // (timeout, timer offset) -> expected wait
    let cfgs: Vec<(Option<Duration>, Option<Duration>)> = vec![
        (Some(ms(0)), None),
        (Some(ms(120)), None),
        (Some(ms(120)), Some(ms(40))),
        (Some(ms(40)), Some(ms(120))),
        (None, Some(ms(80))),
        (Some(ms(0)), Some(ms(500))),
        (Some(ms(100)), Some(ms(0))),
    ];
    let mut outcomes = std::collections::HashSet::new();
    for (timeout, timer) in cfgs {
        let mut el: EventLoop<'static, u32> = EventLoop::try_new().unwrap();
        let h = el.handle();
        // an idle background
        let (_p, s) = make_ping().unwrap();
        h.insert_source(s, |_, _, _| {}).unwrap();
        let (_tx, rx) = channel::<u32>();
        h.insert_source(rx, |_, _, _| {}).unwrap();
        if let Some(t) = timer {
            h.insert_source(Timer::from_duration(t), |_, _, n: &mut u32| {
                *n += 1;
                TimeoutAction::Drop
            })
            .unwrap();
        }
        let expect = match (timeout, timer) {
            (Some(a), Some(b)) => a.min(b),
            (Some(a), None) => a,
            (None, Some(b)) => b,
            (None, None) => unreachable!(),
        };
        let mut fired = 0u32;
        let t0 = Instant::now();
        el.dispatch(timeout, &mut fired).unwrap();
        let mut took = t0.elapsed();
        let early = took + Duration::from_millis(2) < expect;
        // oversleeping may be the machine's fault: retry on fresh loops, keep the fastest
        let mut attempt = 0;
        while took > expect + tol && attempt < 2 && !early {
            attempt += 1;
            let mut el2: EventLoop<'static, u32> = EventLoop::try_new().unwrap();
            if let Some(t) = timer {
                el2.handle()
                    .insert_source(Timer::from_duration(t), |_, _, n: &mut u32| {
                        *n += 1;
                        TimeoutAction::Drop
                    })
                    .unwrap();
            }
            let mut f2 = 0u32;
            let t1 = Instant::now();
            el2.dispatch(timeout, &mut f2).unwrap();
            let tk = t1.elapsed();
            if tk < took {
                took = tk;
                fired = f2;
            }
        }
        rep.executions += 1;
        rep.transitions += 1;
        *rep.clause_counts.entry("real-time-wait".into()).or_insert(0) += 1;
        let timer_was_limit = timer.map(|t| timeout.map(|x| t <= x).unwrap_or(true)).unwrap_or(false);
        if took + Duration::from_millis(2) < expect {
            rep.violations.push(viol(&["C12"], "returned-early", &[], format!("dispatch({timeout:?}) with timer {timer:?} returned after {took:?}, expected at least {expect:?}")));
        }
        if took > expect + tol {
            rep.violations.push(viol(&["C12"], "overslept", &[], format!("dispatch({timeout:?}) with timer {timer:?} returned after {took:?}, expected about {expect:?} (tolerance {tol:?})")));
        }
        if timer_was_limit && fired != 1 {
            rep.violations.push(viol(&["C12", "C05"], "limit-timer-did-not-fire", &[], format!("dispatch({timeout:?}) was limited by the timer {timer:?} but the timer fired {fired} times")));
        }
        outcomes.insert((expect.as_millis() as u64, fired));
        rep.samples.push(serde_json::json!({"timeout_ms": timeout.map(|d| d.as_millis() as u64), "timer_ms": timer.map(|d| d.as_millis() as u64), "took_ms": took.as_millis() as u64, "fired": fired}));
    }
    rep.samples.truncate(4);
    rep.states = rep.executions;
    rep.distinct_outcomes = outcomes.len() as u64;
    rep.distinct_nontrivial = outcomes.len() as u64;
    rep.violation_count = rep.violations.len() as u64;
    rep.levels_completed = vec![0];
    rep.wall_s = start.elapsed().as_secs_f64();
    rep
}


/// `idle-burst`: on one loop, a dispatch with n1 plain idles, then a dispatch with n2 idles of which
/// the one at position j inserts a follow-up (which inserts a second follow-up when it runs), for
/// every n1, n2 in 1..=12 and every j: the n2 idles run in insertion order in their dispatch, the
/// follow-up in the next one, its own follow-up in the one after, each exactly once.
pub fn idle_burst() -> Report {
    seqhooks::install();
    crate::quiet_panics();
    let start = Instant::now();
    let mut rep = Report { driver: "idle-burst".into(), exhaustive: true, ..Default::default() };
    let mut outcomes = std::collections::HashSet::new();
    type Log = Vec<(u32, u32)>; // (idle id, dispatch number)
    struct St {
        log: Log,
        round: u32,
        h: Option<LoopHandle<'static, St>>,
    }
    for n1 in 0..=12u32 {
        for n2 in 1..=12u32 {
            for j in 0..n2 {
                let snapshot = rep.violations.len();
                let r = std::panic::catch_unwind(std::panic::AssertUnwindSafe(|| {
                    seqhooks::reset();
                    let mut el: EventLoop<'static, St> = EventLoop::try_new().unwrap();
                    let h = el.handle();
                    let mut st = St { log: vec![], round: 0, h: Some(h.clone()) };
                    let mut want: Log = vec![];
                    if n1 > 0 {
                        for i in 0..n1 {
                            let _ = h.insert_idle(move |st: &mut St| st.log.push((i, st.round)));
                            want.push((i, 1));
                        }
                        st.round = 1;
                        el.dispatch(Some(Duration::ZERO), &mut st).unwrap();
                        rep.transitions += 1;
                    }
                    let base = 100;
                    let first = st.round + 1;
                    for i in 0..n2 {
                        if i == j {
                            let _ = h.insert_idle(move |st: &mut St| {
                                st.log.push((base + i, st.round));
                                let h = st.h.clone().unwrap();
                                let _ = h.insert_idle(move |st: &mut St| {
                                    st.log.push((1000, st.round));
                                    let h = st.h.clone().unwrap();
                                    let _ = h.insert_idle(move |st: &mut St| st.log.push((2000, st.round)));
                                });
                            });
                        } else {
                            let _ = h.insert_idle(move |st: &mut St| st.log.push((base + i, st.round)));
                        }
                        want.push((base + i, first));
                    }
                    want.push((1000, first + 1));
                    want.push((2000, first + 2));
                    for _ in 0..4 {
                        st.round += 1;
                        el.dispatch(Some(Duration::ZERO), &mut st).unwrap();
                        rep.transitions += 1;
                    }
                    st.h.take();
                    (st.log, want)
                }));
                rep.executions += 1;
                *rep.clause_counts.entry("idle-burst".into()).or_insert(0) += 1;
                match r {
                    Ok((got, want)) => {
                        outcomes.insert(got.clone());
                        if got != want {
                            let missing: Vec<_> = want.iter().filter(|w| !got.iter().any(|g| g.0 == w.0)).map(|w| w.0).collect();
                            let clause = if !missing.is_empty() { "idle-not-run" } else { "idle-order-or-dispatch" };
                            rep.violations.push(viol(
                                &["C13", "C08"],
                                clause,
                                &[("follow_up_lost", missing.iter().any(|m| *m >= 1000).to_string())],
                                format!("{n1} idles in the first dispatch, then {n2} idles with the one at position {j} inserting a follow-up: ran (id, dispatch) {got:?}, expected {want:?}"),
                            ));
                        }
                    }
                    Err(p) => {
                        let msg = p.downcast_ref::<String>().cloned().or_else(|| p.downcast_ref::<&str>().map(|s| s.to_string())).unwrap_or_else(|| "panic".into());
                        rep.violations.truncate(snapshot);
                        rep.violations.push(viol(&["C13", "C08"], "panic-in-dispatch", &[], format!("n1={n1} n2={n2} j={j}: the loop panicked: {msg}")));
                    }
                }
            }
        }
    }
    // keep one violation per clause/feature combination
    let mut seen = std::collections::HashSet::new();
    rep.violations.retain(|v| seen.insert(v.signature()));
    rep.states = rep.executions;
    rep.distinct_outcomes = outcomes.len() as u64;
    rep.distinct_nontrivial = outcomes.len() as u64;
    rep.violation_count = rep.violations.len() as u64;
    rep.levels_completed = vec![0];
    rep.wall_s = start.elapsed().as_secs_f64();
    rep
}


/// `slot-wrap`: slot 1 is reused k times while the token of its first occupant is kept; after
/// the k-th reuse the old token must still be dead: different key, every operation through it
/// rejected, and the newcomer untouched. k runs over small values and the ones around the 16-bit
/// generation counter's wrap (the properties allow fewer than 65536 reuses).
pub fn slot_wrap() -> Report {
    seqhooks::install();
    crate::quiet_panics();
    let start = Instant::now();
    let mut rep = Report { driver: "slot-wrap".into(), exhaustive: true, ..Default::default() };
    let mut outcomes = std::collections::HashSet::new();
    for &k in &[1u32, 2, 3, 255, 256, 257, 32767, 32768, 65533, 65534, 65535] {
        for in_dispatch_gap in [false, true] {
            let snapshot = rep.violations.len();
            let r = std::panic::catch_unwind(std::panic::AssertUnwindSafe(|| {
                seqhooks::reset();
                let mut el: EventLoop<'static, Vec<u32>> = EventLoop::try_new().unwrap();
                let h: LoopHandle<'static, Vec<u32>> = el.handle();
                let mut got: Vec<u32> = vec![];
                // slot 0 stays occupied
                let (_p0, s0) = make_ping().unwrap();
                h.insert_source(s0, |_, _, got: &mut Vec<u32>| got.push(0)).unwrap();
                // first occupant of slot 1
                let (_pa, sa) = make_ping().unwrap();
                let tok_a = h.insert_source(sa, |_, _, got: &mut Vec<u32>| got.push(1)).unwrap();
                let key_a = calloop::verif::registration_key(&tok_a);
                h.remove(tok_a);
                for i in 0..k - 1 {
                    let t = h
                        .insert_source(Timer::from_duration(Duration::from_secs(3600)), |_, _, _: &mut Vec<u32>| TimeoutAction::Drop)
                        .unwrap();
                    h.remove(t);
                    if in_dispatch_gap && (i % 8192 == 0) {
                        el.dispatch(Some(Duration::ZERO), &mut got).unwrap();
                    }
                }
                if in_dispatch_gap {
                    el.dispatch(Some(Duration::ZERO), &mut got).unwrap();
                }
                // the k-th reuse: the newcomer
                let (pb, sb) = make_ping().unwrap();
                let tok_b = h.insert_source(sb, |_, _, got: &mut Vec<u32>| got.push(2)).unwrap();
                let key_b = calloop::verif::registration_key(&tok_b);
                let same_slot = calloop::verif::key_to_fields(key_a).0 == calloop::verif::key_to_fields(key_b).0;
                let mut problems: Vec<String> = vec![];
                if !same_slot {
                    problems.push(format!("harness premise broken: newcomer is in slot {:?}, not in the reused one", calloop::verif::key_to_fields(key_b)));
                }
                if key_a == key_b {
                    problems.push(format!("the newcomer got the very key {key_a:#x} of the slot's first occupant"));
                }
                if h.disable(&tok_a).is_ok() {
                    problems.push("disable() through the dead token returned Ok".into());
                }
                if h.update(&tok_a).is_ok() {
                    problems.push("update() through the dead token returned Ok".into());
                }
                if h.enable(&tok_a).is_ok() {
                    problems.push("enable() through the dead token returned Ok".into());
                }
                h.remove(tok_a);
                pb.ping();
                el.dispatch(Some(Duration::ZERO), &mut got).unwrap();
                if got != vec![2] {
                    problems.push(format!("after the operations through the dead token the newcomer's ping gave callbacks {got:?}, expected [2]"));
                }
                rep.transitions += k as u64 + 4;
                problems
            }));
            rep.executions += 1;
            *rep.clause_counts.entry("slot-wrap".into()).or_insert(0) += 1;
            match r {
                Ok(problems) => {
                    outcomes.insert((k, problems.len()));
                    if !problems.is_empty() {
                        rep.violations.push(viol(
                            &["C01", "C06", "C20"],
                            "dead-token-alive-after-reuse",
                            &[("reuses", k.to_string())],
                            format!("slot reused {k} times (dispatches in between: {in_dispatch_gap}): {}", problems.join("; ")),
                        ));
                    }
                }
                Err(p) => {
                    let msg = p.downcast_ref::<String>().cloned().or_else(|| p.downcast_ref::<&str>().map(|s| s.to_string())).unwrap_or_else(|| "panic".into());
                    rep.violations.truncate(snapshot);
                    rep.violations.push(viol(&["C01", "C06"], "panic-in-dispatch", &[("reuses", k.to_string())], format!("slot reused {k} times: the loop panicked: {msg}")));
                }
            }
        }
    }
    rep.states = rep.executions;
    rep.distinct_outcomes = outcomes.len() as u64;
    rep.distinct_nontrivial = rep.executions;
    rep.violation_count = rep.violations.len() as u64;
    rep.levels_completed = vec![0];
    rep.wall_s = start.elapsed().as_secs_f64();
    rep
}


/// `block-on-idle`: C13 under `block_on` (single thread; the future wakes itself from inside its
/// first poll so that the iteration's wait returns). All 16 combinations of: an idle queued before
/// block_on, an idle inserted by the future's first poll, a pinged source (whose callback may insert
/// a third idle). Expected log of the first iteration: the source callback (if pinged), then the
/// idles in insertion order; nothing twice; block_on returns the future's value.
pub fn block_on_idle() -> Report {
    seqhooks::install();
    crate::quiet_panics();
    let start = Instant::now();
    let mut rep = Report { driver: "block-on-idle".into(), exhaustive: true, ..Default::default() };
    let mut outcomes = std::collections::HashSet::new();
    struct St {
        log: Vec<&'static str>,
        h: Option<LoopHandle<'static, St>>,
    }
    for mask in 0..16u32 {
        let (idle_before, idle_in_poll, pinged, idle_in_cb) = (mask & 1 != 0, mask & 2 != 0, mask & 4 != 0, mask & 8 != 0);
        if idle_in_cb && !pinged {
            continue;
        }
        let r = std::panic::catch_unwind(std::panic::AssertUnwindSafe(|| {
            seqhooks::reset();
            let mut el: EventLoop<'static, St> = EventLoop::try_new().unwrap();
            let h = el.handle();
            let mut st = St { log: vec![], h: Some(h.clone()) };
            let (ping, src) = make_ping().unwrap();
            h.insert_source(src, move |_, _, st: &mut St| {
                st.log.push("event");
                if idle_in_cb {
                    let _ = st.h.clone().unwrap().insert_idle(|st: &mut St| st.log.push("idle-from-callback"));
                }
            })
            .unwrap();
            let mut want: Vec<&'static str> = vec![];
            if pinged {
                ping.ping();
                want.push("event");
            }
            if idle_before {
                let _ = h.insert_idle(|st: &mut St| st.log.push("idle-before"));
                want.push("idle-before");
            }
            if idle_in_poll {
                want.push("idle-from-poll");
            }
            if idle_in_cb {
                want.push("idle-from-callback");
            }
            want.push("iteration-end");
            let h2 = h.clone();
            let mut polls = 0u32;
            let fut = std::future::poll_fn(move |cx: &mut std::task::Context<'_>| {
                polls += 1;
                if polls == 1 {
                    if idle_in_poll {
                        let _ = h2.insert_idle(|st: &mut St| st.log.push("idle-from-poll"));
                    }
                    cx.waker().wake_by_ref();
                    std::task::Poll::Pending
                } else {
                    std::task::Poll::Ready(polls)
                }
            });
            let mut iters = 0u32;
            let sig = el.get_signal();
            let out = el.block_on(fut, &mut st, |st: &mut St| {
                iters += 1;
                st.log.push("iteration-end");
                if iters > 6 {
                    sig.stop();
                }
            });
            st.h.take();
            (st.log, want, out.map_err(|e| format!("{e}")), iters)
        }));
        rep.executions += 1;
        rep.transitions += 2;
        *rep.clause_counts.entry("block-on-idle".into()).or_insert(0) += 1;
        match r {
            Ok((got, want, out, iters)) => {
                outcomes.insert(got.clone());
                if got != want || out != Ok(Some(2)) || iters != 1 {
                    rep.violations.push(viol(
                        &["C13", "C11"],
                        "block-on-idle-order",
                        &[("events_first", (got.first() == want.first()).to_string())],
                        format!("block_on with idle_before={idle_before} idle_in_poll={idle_in_poll} pinged={pinged} idle_in_callback={idle_in_cb}: log {got:?}, expected {want:?}; result {out:?} after {iters} iteration(s)"),
                    ));
                }
            }
            Err(p) => {
                let msg = p.downcast_ref::<String>().cloned().or_else(|| p.downcast_ref::<&str>().map(|s| s.to_string())).unwrap_or_else(|| "panic".into());
                rep.violations.push(viol(&["C13", "C11"], "panic-in-dispatch", &[], format!("block_on scenario {mask}: the loop panicked: {msg}")));
            }
        }
    }
    rep.states = rep.executions;
    rep.distinct_outcomes = outcomes.len() as u64;
    rep.distinct_nontrivial = outcomes.len() as u64;
    rep.violation_count = rep.violations.len() as u64;
    rep.levels_completed = vec![0];
    rep.wall_s = start.elapsed().as_secs_f64();
    rep
}
