//! Engine K — C20: exhaustive enumeration of the poller key encoding.
//!
//! The "state space" is the domain of the three pure conversions; it is enumerated through
//! the add-only accessors in `calloop::verif`, which call the real `From` impls,
//! `increment_version`, `TokenInner::new` and `TokenFactory`.

use std::collections::BTreeMap;
use std::panic::{catch_unwind, AssertUnwindSafe};

use calloop::verif as cv;

use crate::explore::{Report, Violation};

fn viol(clause: &str, msg: String, feat: &[(&str, String)]) -> Violation {
    let mut features = BTreeMap::new();
    for (k, v) in feat {
        features.insert(k.to_string(), v.clone());
    }
    Violation {
        props: vec!["C20".into()],
        clause: clause.into(),
        features,
        message: msg,
        tape: vec![],
        decoded: vec![],
    }
}

pub fn run(tier: &str, shard: (u32, u32), seed: u64) -> Report {
    let start = std::time::Instant::now();
    let mut rep = Report {
        driver: "keys".into(),
        exhaustive: true,
        ..Default::default()
    };
    let thorough = tier == "thorough";
    let (sh, nsh) = shard;

    // ids whose complete 2^32 (generation, sub-id) plane is enumerated
    let full_ids: Vec<u32> = if thorough {
        vec![
            0,
            1,
            2,
            (1 << 16) - 1,
            1 << 16,
            (1 << 16) + 1,
            (1u32 << 31) - 1,
            1u32 << 31,
            (1u32 << 31) + 1,
            u32::MAX - 1,
            u32::MAX,
        ]
    } else {
        vec![0, 1u32 << 31, u32::MAX - 1, u32::MAX]
    };
    let mut evals: u64 = 0;
    let mut nontrivial: u64 = 0;
    let mut clause = |rep: &mut Report, c: &str, n: u64| {
        *rep.clause_counts.entry(c.to_string()).or_insert(0) += n;
    };

    // 1. full planes (sharded over the generation range)
    for &id in &full_ids {
        let mut bad = 0u32;
        for v in (sh..65536).step_by(nsh as usize) {
            let v = v as u16;
            for s in 0..=u16::MAX {
                let k = cv::fields_to_key(id, v, s);
                let back = cv::key_to_fields(k);
                evals += 1;
                if v != 0 && s != 0 {
                    nontrivial += 1;
                }
                if back != (id, v, s) {
                    bad += 1;
                    if bad <= 3 {
                        rep.violations.push(viol(
                            "roundtrip",
                            format!("fields ({id},{v},{s}) -> key {k:#x} -> {back:?}"),
                            &[("id", id.to_string())],
                        ));
                    }
                }
                if k == usize::MAX && id != u32::MAX {
                    rep.violations.push(viol(
                        "reserved-key",
                        format!("fields ({id},{v},{s}) encode to the poller's reserved key"),
                        &[("id", id.to_string())],
                    ));
                }
            }
            // generation bump for every sub-id boundary of this generation
            for s in [0u16, 1, 0x7fff, 0x8000, 0xfffe, 0xffff] {
                let k = cv::fields_to_key(id, v, s);
                let b = cv::key_to_fields(cv::bump_generation(k));
                evals += 1;
                if b != (id, v.wrapping_add(1), 0) {
                    rep.violations.push(viol(
                        "bump",
                        format!("bump of ({id},{v},{s}) gave {b:?}"),
                        &[("id", id.to_string())],
                    ));
                }
            }
        }
        clause(&mut rep, "roundtrip", 1);
        clause(&mut rep, "bump", 1);
    }

    // 1b. "sub-tokens ... belong to that source": the crate's own same-source relation holds between
    // any two keys of one (slot, generation) whatever their sub-ids and whichever is the receiver,
    // and between no two keys that differ in slot or generation (boundary values, all pairs)
    if sh == 0 {
        let b16 = [0u16, 1, 2, 0x7fff, 0x8000, 0xfffe, 0xffff];
        let b32 = [0u32, 1, 0xffff, 0x1_0000, 0x7fff_ffff, 0x8000_0000, u32::MAX - 1];
        let mut bad = 0;
        for &id in &b32 {
            for &v in &b16 {
                for &s1 in &b16 {
                    for &s2 in &b16 {
                        let (a, b) = (cv::fields_to_key(id, v, s1), cv::fields_to_key(id, v, s2));
                        evals += 1;
                        nontrivial += (s1 != s2) as u64;
                        if !cv::same_source(a, b) {
                            bad += 1;
                            if bad <= 3 {
                                rep.violations.push(viol("belongs", format!("keys ({id},{v},{s1}) and ({id},{v},{s2}) are sub-tokens of one source but same_source says no (receiver first)"), &[("expected", "true".into())]));
                            }
                        }
                        for &id2 in &b32 {
                            for &v2 in &b16 {
                                if (id2, v2) == (id, v) {
                                    continue;
                                }
                                let c = cv::fields_to_key(id2, v2, s2);
                                evals += 1;
                                if cv::same_source(a, c) {
                                    bad += 1;
                                    if bad <= 3 {
                                        rep.violations.push(viol("belongs", format!("keys ({id},{v},{s1}) and ({id2},{v2},{s2}) belong to different sources but same_source says yes"), &[("expected", "false".into())]));
                                    }
                                }
                            }
                        }
                    }
                }
            }
        }
        clause(&mut rep, "belongs", 1);
    }

    // 2. dense id sweep with boundary (generation, sub-id) pairs
    let n_ids: u64 = if thorough { 1 << 22 } else { 1 << 18 };
    let stride = (1u64 << 32) / n_ids;
    let bounds: Vec<u16> = {
        let mut b = vec![0u16, 1, 2, 0x00ff, 0x0100, 0x7fff, 0x8000, 0xfffe, 0xffff];
        // plus all single-bit and all-but-one-bit values
        for i in 0..16 {
            b.push(1 << i);
            b.push(!(1u16 << i));
        }
        b.sort();
        b.dedup();
        b
    };
    let offset = seed % stride.max(1);
    let mut prev_key_for_order: Option<(u32, usize)> = None;
    let mut dense_bad = [0u64; 4];
    for j in (sh as u64..n_ids).step_by(nsh as usize) {
        let id = (j * stride + offset).min(u32::MAX as u64) as u32;
        for &v in &bounds {
            for &s in &bounds {
                let k = cv::fields_to_key(id, v, s);
                evals += 1;
                if v != 0 && s != 0 {
                    nontrivial += 1;
                }
                if cv::key_to_fields(k) != (id, v, s) && {
                    dense_bad[0] += 1;
                    dense_bad[0] <= 4
                } {
                    rep.violations.push(viol(
                        "roundtrip",
                        format!("fields ({id},{v},{s}) -> key {k:#x} -> {:?}", cv::key_to_fields(k)),
                        &[("id", "dense-sample".into())],
                    ));
                }
                if k == usize::MAX && id != u32::MAX && {
                    dense_bad[1] += 1;
                    dense_bad[1] <= 4
                } {
                    rep.violations.push(viol(
                        "reserved-key",
                        format!("fields ({id},{v},{s}) encode to the poller's reserved key"),
                        &[("id", "dense-sample".into())],
                    ));
                }
            }
        }
        // distinct ids give distinct keys for equal (v, s): strict monotonicity in id
        let k0 = cv::fields_to_key(id, 0xffff, 0xffff);
        if let Some((pid, pk)) = prev_key_for_order {
            if pid < id && !(pk < cv::fields_to_key(id, 0, 0)) && {
                dense_bad[2] += 1;
                dense_bad[2] <= 4
            } {
                rep.violations.push(viol(
                    "injective-across-ids",
                    format!("max key of id {pid} ({pk:#x}) is not below min key of id {id}"),
                    &[],
                ));
            }
        }
        prev_key_for_order = Some((id, k0));
        // new-slot key
        match cv::new_slot_key(id as usize) {
            Some(k) if cv::key_to_fields(k) == (id, 0, 0) => {}
            other => {
                dense_bad[3] += 1;
                if dense_bad[3] <= 4 {
                    rep.violations.push(viol("new-slot", format!("new slot {id} gave {other:?}"), &[]));
                }
            }
        }
        evals += 1;
    }
    clause(&mut rep, "dense-ids", 1);
    if sh == 0 {
        for id in [(1usize << 32), (1usize << 32) + 1, usize::MAX] {
            evals += 1;
            if cv::new_slot_key(id).is_some() {
                rep.violations.push(viol(
                    "new-slot",
                    format!("slot index {id} beyond 2^32-1 was accepted"),
                    &[],
                ));
            }
        }
        clause(&mut rep, "slot-index-overflow", 1);
    }

    // 3. token factories: every count 1..=65536 is covered by one run to exhaustion per
    //    (id, generation) corner; tokens must be distinct, same source, sequential.
    let corners: Vec<(u32, u16)> = vec![
        (0, 0),
        (0, 0xffff),
        (1, 1),
        (u32::MAX - 1, 0xffff),
        (u32::MAX, 0),
        (1 << 16, 0x8000),
        (12345, 777),
        (u32::MAX, 0xffff),
    ];
    let prev_hook = std::panic::take_hook();
    crate::quiet_panics();
    for (ci, &(id, v)) in corners.iter().enumerate() {
        if ci as u32 % nsh != sh {
            continue;
        }
        // start from a key with a non-zero sub-id: the factory must forget it
        let mut f = cv::token_factory(cv::fields_to_key(id, v, 0x1234));
        let mut produced: u32 = 0;
        let mut failed_loudly = false;
        let mut last_key: Option<usize> = None;
        for call in 0..70000u32 {
            let r = catch_unwind(AssertUnwindSafe(|| f.token()));
            evals += 1;
            match r {
                Ok(tok) => {
                    let k = cv::token_key(&tok);
                    let (tid, tv, ts) = cv::key_to_fields(k);
                    if (tid, tv) != (id, v) {
                        rep.violations.push(viol(
                            "factory-foreign-token",
                            format!("factory for ({id},{v}) call {call} produced token of ({tid},{tv})"),
                            &[],
                        ));
                        break;
                    }
                    if ts as u32 != produced {
                        rep.violations.push(viol(
                            "factory-sequence",
                            format!("factory for ({id},{v}) call {call} produced sub-id {ts}, expected {produced} (wrap-around or skip)"),
                            &[],
                        ));
                        break;
                    }
                    if last_key == Some(k) {
                        rep.violations.push(viol(
                            "factory-duplicate",
                            format!("factory for ({id},{v}) produced key {k:#x} twice"),
                            &[],
                        ));
                        break;
                    }
                    if k == usize::MAX && id != u32::MAX {
                        rep.violations.push(viol("reserved-key", format!("factory produced reserved key for id {id}"), &[]));
                    }
                    last_key = Some(k);
                    produced += 1;
                    nontrivial += 1;
                }
                Err(_) => {
                    failed_loudly = true;
                    break;
                }
            }
        }
        if !failed_loudly && rep.violations.is_empty() {
            rep.violations.push(viol(
                "factory-no-loud-failure",
                format!("factory for ({id},{v}) handed out {produced} tokens without failing"),
                &[],
            ));
        }
        if produced > 65536 {
            rep.violations.push(viol(
                "factory-too-many",
                format!("factory for ({id},{v}) produced {produced} > 65536 tokens"),
                &[],
            ));
        }
        rep.extra.insert(
            format!("factory_tokens_before_panic_{id}_{v}"),
            serde_json::json!(produced),
        );
        clause(&mut rep, "factory", 1);
    }
    std::panic::set_hook(prev_hook);

    rep.executions = evals;
    rep.transitions = evals;
    rep.states = evals;
    rep.distinct_outcomes = evals;
    rep.distinct_nontrivial = nontrivial;
    rep.violation_count = rep.violations.len() as u64;
    rep.samples = vec![
        serde_json::json!({"fields": [0, 0, 0], "key": cv::fields_to_key(0, 0, 0)}),
        serde_json::json!({"fields": [1, 2, 3], "key": format!("{:#x}", cv::fields_to_key(1, 2, 3))}),
        serde_json::json!({"fields": [u32::MAX - 1, 65535, 65535], "key": format!("{:#x}", cv::fields_to_key(u32::MAX - 1, 65535, 65535))}),
        serde_json::json!({"full_planes_for_ids": full_ids, "dense_ids": n_ids, "boundary_values": bounds.len()}),
    ];
    rep.levels_completed = vec![0];
    rep.wall_s = start.elapsed().as_secs_f64();
    rep
}
