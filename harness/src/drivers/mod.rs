pub mod keys;
pub mod worlds;

use crate::explore::Report;
use crate::Args;

pub fn names() -> Vec<&'static str> {
    vec!["keys", "reuse", "modes", "batch", "removal", "disable"]
}

pub fn dispatch(args: &Args) -> Option<Report> {
    match args.driver.as_str() {
        "keys" => Some(keys::run(&args.tier, args.shard, args.seed)),
        d if worlds::cfg_for(d, &args.tier).is_some() => worlds::run(args),
        other => {
            eprintln!("unknown driver {other}");
            std::process::exit(2);
        }
    }
}
