pub mod asyncio;
pub mod keys;
pub mod limits;
pub mod probe;
pub mod regs;
pub mod sigs;
pub mod threads;
pub mod transient;
pub mod worlds;

use crate::explore::Report;
use crate::Args;

pub fn names() -> Vec<&'static str> {
    vec!["keys", "reuse", "modes", "batch", "removal", "disable", "pairs", "stream-seq", "limit", "manyready", "wait-real", "idle-burst", "slot-wrap", "block-on-idle", "reentrancy", "epoll", "exec-seq", "postaction", "lifecycle", "faults", "idle", "composite", "signals", "transient", "crash-probe", "async-io", "pa-table", "timers", "wait", "ping-seq", "chan-seq", "ping-mt", "chan-mt", "sync-mt", "exec-mt", "wakeup", "run", "block_on", "signal-mt"]
}

pub fn dispatch(args: &Args) -> Option<Report> {
    match args.driver.as_str() {
        "keys" => Some(keys::run(&args.tier, args.shard, args.seed)),
        "async-io" => asyncio::run(args),
        "crash-probe" => Some(probe::run()),
        "transient" => transient::run(args),
        "signals" => sigs::run(args),
        "limit" => Some(limits::limit()),
        "manyready" => Some(limits::manyready()),
        "wait-real" => Some(limits::wait_real()),
        "idle-burst" => Some(limits::idle_burst()),
        "slot-wrap" => Some(limits::slot_wrap()),
        "block-on-idle" => Some(limits::block_on_idle()),
        "pa-table" => Some(regs::pa_table()),
        d if regs::cfg_for(d, &args.tier).is_some() => regs::run(args),
        d if threads::is_driver(d) => threads::run(args),
        d if worlds::cfg_for(d, &args.tier).is_some() => worlds::run(args),
        other => {
            eprintln!("unknown driver {other}");
            std::process::exit(2);
        }
    }
}
