pub mod keys;

use crate::explore::Report;
use crate::Args;

pub fn names() -> Vec<&'static str> {
    vec!["keys"]
}

pub fn dispatch(args: &Args) -> Option<Report> {
    match args.driver.as_str() {
        "keys" => Some(keys::run(&args.tier, args.shard, args.seed)),
        other => {
            eprintln!("unknown driver {other}");
            std::process::exit(2);
        }
    }
}
