//! Engine P driver for C19: signal-mask bookkeeping of the `Signals` source.
//!
//! Must run on the only thread of the process (it does: the sequential engines never spawn
//! threads). Counting handlers are installed for USR1, USR2 and WINCH so that the "normal
//! disposition" of an unconfigured signal is observable and harmless.

use std::collections::{BTreeMap, BTreeSet};
use std::hash::{Hash, Hasher};
use std::sync::atomic::{AtomicU32, Ordering};
use std::time::Duration;

use calloop::signals::{Signal, Signals};
use calloop::{Dispatcher, EventLoop, RegistrationToken};

use crate::explore::{self, Config, Kind, Outcome, Report, Tape, Violation, TAPE};
use crate::seqhooks;
use crate::Args;

const SIGS: [(Signal, i32); 3] = [
    (Signal::SIGUSR1, libc::SIGUSR1),
    (Signal::SIGUSR2, libc::SIGUSR2),
    (Signal::SIGWINCH, libc::SIGWINCH),
];

static HANDLED: [AtomicU32; 3] = [AtomicU32::new(0), AtomicU32::new(0), AtomicU32::new(0)];

extern "C" fn handler(sig: libc::c_int) {
    for (i, s) in SIGS.iter().enumerate() {
        if s.1 == sig {
            HANDLED[i].fetch_add(1, Ordering::SeqCst);
        }
    }
}

fn install_handlers() {
    for s in SIGS.iter() {
        unsafe {
            let mut sa: libc::sigaction = std::mem::zeroed();
            sa.sa_sigaction = handler as usize;
            libc::sigemptyset(&mut sa.sa_mask);
            sa.sa_flags = 0;
            libc::sigaction(s.1, &sa, std::ptr::null_mut());
        }
    }
}

fn blocked_now() -> BTreeSet<usize> {
    let mut out = BTreeSet::new();
    unsafe {
        let mut cur: libc::sigset_t = std::mem::zeroed();
        libc::pthread_sigmask(libc::SIG_BLOCK, std::ptr::null(), &mut cur);
        for (i, s) in SIGS.iter().enumerate() {
            if libc::sigismember(&cur, s.1) == 1 {
                out.insert(i);
            }
        }
    }
    out
}

fn pending_now() -> BTreeSet<usize> {
    let mut out = BTreeSet::new();
    unsafe {
        let mut cur: libc::sigset_t = std::mem::zeroed();
        libc::sigpending(&mut cur);
        for (i, s) in SIGS.iter().enumerate() {
            if libc::sigismember(&cur, s.1) == 1 {
                out.insert(i);
            }
        }
    }
    out
}

fn subset(mask: u32) -> Vec<Signal> {
    (0..3).filter(|i| mask & (1 << i) != 0).map(|i| SIGS[i].0).collect()
}

fn set_of(mask: u32) -> BTreeSet<usize> {
    (0..3).filter(|i| mask & (1 << i) != 0).collect()
}

#[derive(Clone, Copy, Debug, PartialEq, Eq)]
enum SOp {
    Dispatch,
    /// a dispatch during which the first signal callback raises this signal again
    DispatchRaise(usize),
    New(u32),
    Add(u32),
    Remove(u32),
    Set(u32),
    Raise(usize),
    Drop,
}

struct Data {
    got: Vec<(i32, u32)>, // (signal number, sender pid)
    /// signal the next callback invocation raises (index into SIGS)
    raise_in_cb: Option<usize>,
    /// number of reports that had been made when the callback raised it
    raised_at: Option<usize>,
}

fn viol(clause: &str, feats: &[(&str, String)], msg: String) -> Violation {
    let mut features = BTreeMap::new();
    for (k, v) in feats {
        features.insert(k.to_string(), v.clone());
    }
    Violation {
        props: vec!["C19".into()],
        clause: clause.into(),
        features,
        message: msg,
        tape: vec![],
        decoded: vec![],
    }
}

fn run_one(quick: bool, verbose: bool) -> Outcome {
    seqhooks::reset();
    let mut out = Outcome::default();
    for h in HANDLED.iter() {
        h.store(0, Ordering::SeqCst);
    }
    // start from a clean thread mask
    unsafe {
        let mut empty: libc::sigset_t = std::mem::zeroed();
        libc::sigemptyset(&mut empty);
        for s in SIGS.iter() {
            libc::sigaddset(&mut empty, s.1);
        }
        libc::pthread_sigmask(libc::SIG_UNBLOCK, &empty, std::ptr::null_mut());
    }
    for h in HANDLED.iter() {
        h.store(0, Ordering::SeqCst);
    }
    let mut el: EventLoop<'static, Data> = EventLoop::try_new().expect("loop");
    let handle = el.handle();
    let mut data = Data { got: vec![], raise_in_cb: None, raised_at: None };
    let mut src: Option<(Dispatcher<'static, Signals, Data>, RegistrationToken)> = None;
    // model
    let mut configured: BTreeSet<usize> = BTreeSet::new();
    let mut pending: BTreeSet<usize> = BTreeSet::new();
    let mut handled = [0u32; 3];
    let mut delivered_total = 0u64;
    let mypid = std::process::id();
    let depth = if quick { 4 } else { 5 };
    let mut transitions = 0u64;
    let mut set_with_pending_kept = false;
    let masks: Vec<u32> = vec![1, 2, 4, 3, 5, 6, 7];

    // unblocking a pending signal hands it to its handler (its normal disposition)
    fn settle(configured: &BTreeSet<usize>, pending: &mut BTreeSet<usize>, handled: &mut [u32; 3]) {
        let p: Vec<usize> = pending.iter().copied().collect();
        for s in p {
            if !configured.contains(&s) {
                pending.remove(&s);
                handled[s] += 1;
            }
        }
    }

    for _ in 0..depth {
        let mut menu: Vec<SOp> = vec![];
        if src.is_some() {
            menu.push(SOp::Dispatch);
            for s in 0..3 {
                menu.push(SOp::DispatchRaise(s));
            }
            for &m in &masks {
                menu.push(SOp::Add(m));
                menu.push(SOp::Remove(m));
                menu.push(SOp::Set(m));
            }
            menu.push(SOp::Set(0));
            menu.push(SOp::Drop);
        } else {
            for &m in &masks {
                menu.push(SOp::New(m));
            }
        }
        for s in 0..3 {
            menu.push(SOp::Raise(s));
        }
        let c = explore::choose(menu.len() as u32 + 1, Kind::Top);
        if c == 0 {
            break;
        }
        let op = menu[c as usize - 1];
        transitions += 1;
        out.decoded.push(format!("{op:?}"));
        let mut call_err: Option<String> = None;
        match op {
            SOp::New(m) => {
                match Signals::new(&subset(m)) {
                    Ok(s) => {
                        let d = Dispatcher::new(s, |ev, _, data: &mut Data| {
                            data.got.push((ev.signal() as i32, ev.pid()));
                            if let Some(s) = data.raise_in_cb.take() {
                                data.raised_at = Some(data.got.len());
                                unsafe { libc::raise(SIGS[s].1) };
                            }
                        });
                        match handle.register_dispatcher(d.clone()) {
                            Ok(t) => src = Some((d, t)),
                            Err(e) => call_err = Some(format!("{e:?}")),
                        }
                    }
                    Err(e) => call_err = Some(format!("{e:?}")),
                }
                configured = set_of(m);
            }
            SOp::Add(m) => {
                let (d, _) = src.as_ref().unwrap();
                if let Err(e) = d.as_source_mut().add_signals(&subset(m)) {
                    call_err = Some(format!("{e:?}"));
                }
                configured.extend(set_of(m));
            }
            SOp::Remove(m) => {
                let (d, _) = src.as_ref().unwrap();
                if let Err(e) = d.as_source_mut().remove_signals(&subset(m)) {
                    call_err = Some(format!("{e:?}"));
                }
                for s in set_of(m) {
                    configured.remove(&s);
                }
                settle(&configured, &mut pending, &mut handled);
            }
            SOp::Set(m) => {
                let (d, _) = src.as_ref().unwrap();
                let newset = set_of(m);
                if pending.iter().any(|p| configured.contains(p) && newset.contains(p)) {
                    set_with_pending_kept = true;
                }
                if let Err(e) = d.as_source_mut().set_signals(&subset(m)) {
                    call_err = Some(format!("{e:?}"));
                }
                configured = newset;
                settle(&configured, &mut pending, &mut handled);
            }
            SOp::Raise(s) => {
                unsafe { libc::raise(SIGS[s].1) };
                if configured.contains(&s) {
                    pending.insert(s); // standard signals coalesce
                } else {
                    handled[s] += 1;
                }
            }
            SOp::Dispatch | SOp::DispatchRaise(_) => {
                data.got.clear();
                data.raised_at = None;
                data.raise_in_cb = if let SOp::DispatchRaise(s) = op { Some(s) } else { None };
                if let Err(e) = el.dispatch(Some(Duration::ZERO), &mut data) {
                    call_err = Some(format!("{e}"));
                }
                data.raise_in_cb = None;
                out.clauses.push("signal-delivery");
                let mut want: Vec<i32> = pending.iter().filter(|p| configured.contains(p)).map(|p| SIGS[*p].1).collect();
                if let (SOp::DispatchRaise(s), Some(at)) = (op, data.raised_at) {
                    // the callback raised signal s after `at` reports of this dispatch
                    out.clauses.push("raise-in-callback");
                    if configured.contains(&s) {
                        // a standard signal coalesces with an instance that is still pending, i.e.
                        // one the source has not read yet; otherwise it is a new pending instance,
                        // and the source reads until nothing is pending
                        let already_read = data.got[..at].iter().any(|g| g.0 == SIGS[s].1);
                        if already_read || !pending.contains(&s) {
                            want.push(SIGS[s].1);
                        }
                    } else {
                        handled[s] += 1;
                    }
                }
                want.sort();
                let mut got: Vec<i32> = data.got.iter().map(|g| g.0).collect();
                got.sort();
                delivered_total += got.len() as u64;
                if got != want {
                    out.violations.push(viol(
                        "signal-delivery-mismatch",
                        &[("after_set_with_pending_kept", set_with_pending_kept.to_string())],
                        format!("dispatch reported signals {got:?}, expected exactly the pending configured ones {want:?}"),
                    ));
                }
                for g in &data.got {
                    if g.1 != mypid {
                        out.violations.push(viol("wrong-sender", &[], format!("signal {} reported sender pid {} instead of {mypid}", g.0, g.1)));
                    }
                }
                for s in configured.iter() {
                    pending.remove(s);
                }
            }
            SOp::Drop => {
                let (d, t) = src.take().unwrap();
                handle.remove(t);
                drop(d.into_source_inner());
                configured.clear();
                settle(&configured, &mut pending, &mut handled);
            }
        }
        if let Some(e) = call_err {
            out.violations.push(viol("call-failed", &[], format!("{op:?} failed: {e}")));
        }
        // after every call: the thread's mask is exactly the configured set
        out.clauses.push("mask");
        let b = blocked_now();
        if b != configured {
            out.violations.push(viol(
                "mask-mismatch",
                &[("op", format!("{op:?}").split('(').next().unwrap().to_string())],
                format!("after {op:?} the thread blocks {b:?} but the configured set is {configured:?} (indices into [USR1, USR2, WINCH])"),
            ));
        }
        let h: Vec<u32> = HANDLED.iter().map(|h| h.load(Ordering::SeqCst)).collect();
        if h != handled.to_vec() {
            out.violations.push(viol(
                "disposition-mismatch",
                &[("after_set_with_pending_kept", set_with_pending_kept.to_string()), ("op", format!("{op:?}").split('(').next().unwrap().to_string())],
                format!("after {op:?} handler counts are {h:?}, the model expects {handled:?}: a signal reached (or missed) its normal disposition"),
            ));
            // resynchronise
            for i in 0..3 {
                handled[i] = h[i];
            }
        }
        let p = pending_now();
        if p != pending {
            out.violations.push(viol("pending-mismatch", &[("after_set_with_pending_kept", set_with_pending_kept.to_string())], format!("after {op:?} kernel pending set {p:?} != model {pending:?}")));
            pending = p;
        }
    }
    // end: dropping the source unblocks everything
    if let Some((d, t)) = src.take() {
        handle.remove(t);
        drop(d.into_source_inner());
        configured.clear();
        settle(&configured, &mut pending, &mut handled);
        out.clauses.push("drop-unblocks");
        let b = blocked_now();
        if !b.is_empty() {
            out.violations.push(viol("mask-mismatch", &[("op", "Drop".into())], format!("after dropping the source the thread still blocks {b:?}")));
        }
        let h: Vec<u32> = HANDLED.iter().map(|h| h.load(Ordering::SeqCst)).collect();
        if h != handled.to_vec() {
            out.violations.push(viol("disposition-mismatch", &[("after_set_with_pending_kept", set_with_pending_kept.to_string()), ("op", "Drop".into())], format!("after the final drop handler counts are {h:?}, expected {handled:?}")));
        }
    }
    let mut hs = std::collections::hash_map::DefaultHasher::new();
    (delivered_total, HANDLED.iter().map(|h| h.load(Ordering::SeqCst)).collect::<Vec<_>>()).hash(&mut hs);
    out.observation = hs.finish();
    out.callbacks = delivered_total;
    out.nontrivial = delivered_total > 0;
    out.transitions = transitions;
    if verbose {
        println!("delivered={delivered_total} handled={:?}", HANDLED.iter().map(|h| h.load(Ordering::SeqCst)).collect::<Vec<_>>());
    }
    out
}

pub fn run(args: &Args) -> Option<Report> {
    crate::seqhooks::install();
    crate::quiet_panics();
    install_handlers();
    let quick = args.tier == "quick";
    if let Some(path) = &args.replay {
        let v: serde_json::Value = serde_json::from_str(&std::fs::read_to_string(path).unwrap()).unwrap();
        let tape: Vec<u32> = v["tape"].as_array().unwrap().iter().map(|x| x.as_u64().unwrap() as u32).collect();
        TAPE.with(|t| *t.borrow_mut() = Tape::new(tape));
        let out = run_one(quick, true);
        println!("ops: {:?}", out.decoded);
        for v in &out.violations {
            println!("REPLAY-VIOLATION {}", v.signature());
        }
        return None;
    }
    let ecfg = Config {
        max_dev: 0,
        max_depth: 5,
        shard: args.shard,
        shard_depth: 2,
        wall_cap_s: args.opt_u("wall", if quick { 120 } else { 600 }) as f64,
        exec_cap: u64::MAX / 2,
        prune: false,
        n_samples: 3,
        seed: args.seed,
    };
    let rep = explore::explore("signals", &ecfg, move |tape: &mut Tape| {
        TAPE.with(|t| std::mem::swap(&mut *t.borrow_mut(), tape));
        let mut out = run_one(quick, false);
        TAPE.with(|t| std::mem::swap(&mut *t.borrow_mut(), tape));
        let choices = tape.choices();
        for v in out.violations.iter_mut() {
            v.tape = choices.clone();
            v.decoded = out.decoded.clone();
        }
        out.fingerprint = Some(explore::fxhash(&choices));
        out
    });
    Some(rep)
}
