//! Engine S drivers: alphabets (Cfg) per property over the shared world.

use std::rc::Rc;

use crate::explore::{self, Config, Report, Tape, TAPE};
use crate::world::{run_history, Cfg, KindSpec};
use crate::Args;

const FD_RL: KindSpec = KindSpec::Fd { r: true, w: false, mode: 0 };
const FD_RE: KindSpec = KindSpec::Fd { r: true, w: false, mode: 1 };
const FD_RO: KindSpec = KindSpec::Fd { r: true, w: false, mode: 2 };

pub fn cfg_for(driver: &str, tier: &str) -> Option<(Cfg, u32)> {
    let q = tier == "quick";
    Some(match driver {
        // C01: slot reuse, stale tokens, callbacks that remove/disable/replace mid-dispatch
        "reuse" => {
            let mut c = Cfg::base("reuse");
            c.insertable = if q {
                vec![KindSpec::Ping, KindSpec::Chan, KindSpec::Timer(-1), FD_RL]
            } else {
                vec![KindSpec::Ping, KindSpec::Chan, KindSpec::Timer(-1), FD_RL, KindSpec::Exec, KindSpec::Stream, KindSpec::SyncChan(1)]
            };
            c.max_actors = if q { 3 } else { 4 };
            c.depth = if q { 5 } else { 6 };
            c.top_stale = true;
            c.top_cause2 = false;
            c.cb_insert = true;
            c.cb_remove_self_insert = true;
            c.prune = true;
            (c, if q { 1 } else { 2 })
        }
        // C02: every interest x mode of an fd source, re-configured by update()
        "modes" => {
            let mut c = Cfg::base("modes");
            let mut all = vec![];
            for m in 0..3u8 {
                for (r, w) in [(true, false), (false, true), (true, true), (false, false)] {
                    all.push((r, w, m));
                }
            }
            c.initial_sets = all.iter().map(|&(r, w, mode)| vec![KindSpec::Fd { r, w, mode }, KindSpec::Ping]).collect();
            c.reconf = if q { vec![(true, false, 0), (true, true, 1), (false, true, 2), (true, false, 2)] } else { all.clone() };
            c.max_actors = 2;
            c.depth = if q { 5 } else { 6 };
            c.top_remove = false;
            c.top_fill = true;
            c.cb_remove = false;
            c.cb_nodrain = true;
            c.cb_enable = true;
            c.check_epoll = true;
            c.prune = true;
            (c, if q { 1 } else { 2 })
        }
        // C02: several simultaneously ready sources of mixed kinds, in-callback operations
        "batch" => {
            let mut c = Cfg::base("batch");
            c.initial_sets = vec![
                vec![KindSpec::Ping, KindSpec::Chan, KindSpec::Timer(-1)],
                vec![FD_RL, KindSpec::Timer(1), KindSpec::Ping],
                vec![KindSpec::Chan, FD_RE, FD_RO],
                vec![KindSpec::Ping, KindSpec::Ping, KindSpec::Chan, KindSpec::Timer(-1)],
            ];
            c.max_actors = 4;
            c.depth = if q { 5 } else { 6 };
            c.top_remove = false;
            c.top_advance = true;
            c.cb_cause2 = true;
            c.prune = true;
            (c, if q { 1 } else { 2 })
        }
        // C01 / C07: two sources that are ready in the same batch, two deviations in the quick tier
        // already: the callback that runs first may do two things to the other one (disable then
        // update, update then return a re-arm, ...) before the other one's collected event is served
        "pairs" => {
            let mut c = Cfg::base("pairs");
            c.initial_sets = vec![
                vec![KindSpec::Ping, KindSpec::Ping],
                vec![KindSpec::Ping, KindSpec::Chan],
                vec![KindSpec::Ping, KindSpec::Timer(1)],
                vec![KindSpec::Timer(1), KindSpec::Timer(1)],
                vec![FD_RL, KindSpec::Ping],
                vec![KindSpec::Ping, FD_RO],
                vec![KindSpec::Stream, KindSpec::Ping],
                vec![KindSpec::Exec, KindSpec::Ping],
                vec![KindSpec::SyncChan(1), KindSpec::Ping],
            ];
            c.max_actors = 2;
            c.depth = if q { 4 } else { 5 };
            c.max_cb_ops = 2;
            c.top_remove = false;
            c.top_cause2 = false;
            c.top_advance = true;
            c.update_disabled = true;
            // a callback may re-program the other source's timer (set_deadline + update): an
            // update() that is silently dropped shows as a timer that does not fire when due
            c.cb_set_deadline = vec![-1];
            // every operation here is issued from inside a callback: whatever goes wrong is also a
            // C08 verdict ("has the effect it would have outside a dispatch")
            c.tag_all = Some("C08");
            c.prune = true;
            c.final_dispatches = 1;
            (c, if q { 2 } else { 3 })
        }
        // C06: every removal path, slot reuse, every token ever issued used again
        "removal" => {
            let mut c = Cfg::base("removal");
            c.insertable = if q {
                vec![KindSpec::Ping, KindSpec::Chan, KindSpec::Timer(-1), FD_RL, KindSpec::Stream, KindSpec::Async]
            } else {
                vec![KindSpec::Ping, KindSpec::Chan, KindSpec::Timer(-1), FD_RL, KindSpec::Stream, KindSpec::Async, KindSpec::Exec, KindSpec::SyncChan(1)]
            };
            c.max_actors = if q { 3 } else { 4 };
            c.depth = if q { 5 } else { 6 };
            c.top_stale = true;
            c.top_update = false;
            c.cb_update = false;
            c.cb_cause2 = true;
            c.cb_insert = true;
            c.cb_remove_self_insert = true;
            // fd sources are registered through a Dispatcher the harness keeps: a removed source
            // that the loop forgot to unregister then stays visible in the kernel table
            c.reconf = vec![(true, false, 0)];
            c.check_epoll = true;
            c.prune = true;
            c.final_dispatches = 1;
            (c, if q { 1 } else { 2 })
        }
        // C07: disable / enable / update around causes, from outside and from callbacks
        "disable" => {
            let mut c = Cfg::base("disable");
            c.initial_sets = vec![
                vec![KindSpec::Ping, KindSpec::Chan],
                vec![KindSpec::Timer(1), KindSpec::Ping],
                vec![FD_RL, KindSpec::Chan],
                vec![FD_RE, KindSpec::Ping],
                vec![FD_RO, KindSpec::Timer(-1)],
                vec![KindSpec::Timer(-1), KindSpec::Timer(1), KindSpec::Ping],
                vec![KindSpec::Exec, KindSpec::Ping],
                vec![KindSpec::Stream, KindSpec::SyncChan(1)],
            ];
            c.max_actors = 3;
            c.depth = if q { 5 } else { 7 };
            c.top_remove = false;
            c.cb_remove = false;
            c.top_cause2 = false;
            c.top_advance = true;
            c.update_disabled = true;
            c.prune = true;
            c.final_dispatches = 1;
            (c, if q { 1 } else { 2 })
        }
        // C03 (sequential half): ping / clone / drop / disable / enable / dispatch histories
        "ping-seq" => {
            let mut c = Cfg::base("ping-seq");
            c.initial_sets = vec![vec![KindSpec::Ping], vec![KindSpec::Ping, KindSpec::Ping]];
            c.max_actors = 2;
            c.depth = if q { 7 } else { 9 };
            c.top_remove = false;
            c.top_update = false;
            c.top_clone = true;
            c.cb_remove = false;
            c.cb_update = false;
            c.cb_cause2 = true;
            c.check_epoll = true;
            c.prune = true;
            c.final_dispatches = 2;
            (c, if q { 1 } else { 2 })
        }
        // C04 (sequential half): send / clone / drop / disable / enable / dispatch histories
        "chan-seq" => {
            let mut c = Cfg::base("chan-seq");
            c.check_wait = true;
            c.top_dispatch_none = true;
            c.initial_sets = vec![vec![KindSpec::Chan], vec![KindSpec::Chan, KindSpec::Ping], vec![KindSpec::SyncChan(1)], vec![KindSpec::SyncChan(2), KindSpec::SyncChan(0)]];
            c.max_actors = 2;
            c.depth = if q { 6 } else { 9 };
            c.top_remove = false;
            c.top_update = false;
            c.top_clone = true;
            c.cb_remove = false;
            c.cb_update = false;
            c.cb_cause2 = true;
            c.prune = true;
            c.final_dispatches = 2;
            (c, if q { 1 } else { 2 })
        }
        // C05: timers — arming ledger, order, cancel, re-arming from other callbacks
        "timers" => {
            let mut c = Cfg::base("timers");
            c.initial_sets = vec![
                vec![KindSpec::Ping],
                vec![KindSpec::Ping, KindSpec::Timer(1)],
                vec![KindSpec::Timer(-1), KindSpec::Timer(1)],
                vec![KindSpec::Timer(1), KindSpec::Timer(1), KindSpec::Ping],
            ];
            c.insertable = vec![KindSpec::Timer(-1), KindSpec::Timer(1), KindSpec::Timer(2), KindSpec::Timer(i8::MAX)];
            c.max_actors = if q { 3 } else { 4 };
            c.depth = if q { 4 } else { 6 };
            c.top_cause2 = false;
            c.top_advance = true;
            c.top_dispatch_wait = true;
            c.top_set_deadline = vec![-1, 2];
            c.cb_set_deadline = vec![-1, 2];
            c.cb_insert = true;
            c.cb_ret_max = true;
            c.check_wait = true;
            c.prune = true;
            c.final_dispatches = 1;
            (c, if q { 1 } else { 2 })
        }
        // C12: how long dispatch waits — timeouts x timer sets x idle sources of every kind
        "wait" => {
            let mut c = Cfg::base("wait");
            let idles = vec![
                vec![KindSpec::Ping, KindSpec::Chan, FD_RL, FD_RO],
                vec![KindSpec::SyncChan(1), KindSpec::SyncChan(0), KindSpec::Ping],
            ];
            let mut sets = vec![];
            for idle in idles {
            for timers in [
                vec![],
                vec![KindSpec::Timer(1)],
                vec![KindSpec::Timer(-1)],
                vec![KindSpec::Timer(1), KindSpec::Timer(2)],
                vec![KindSpec::Timer(10)],
                vec![KindSpec::Timer(i8::MAX)],
                vec![KindSpec::Timer(i8::MAX), KindSpec::Timer(2)],
            ]
            .into_iter()
            .take(if q { 4 } else { 7 })
            {
                let mut s = idle.clone();
                s.extend(timers);
                sets.push(s);
            }
            }
            c.initial_sets = sets;
            c.max_actors = 8;
            c.depth = if q { 4 } else { 5 };
            c.top_remove = false;
            c.top_update = false;
            c.top_advance = true;
            c.top_dispatch_wait = true;
            c.top_dispatch_short = true;
            c.top_dispatch_none = true;
            c.cb_remove = false;
            c.cb_update = false;
            c.cb_enable = false;
            c.cb_disable = false;
            c.cb_cause2 = true;
            c.check_wait = true;
            c.prune = true;
            (c, if q { 1 } else { 1 })
        }
        // C16: the kernel interest list after every step, for every fd-backed kind and the Async
        // adapter; released fds are inserted again; sources outlive the loop or vice versa
        "epoll" => {
            let mut c = Cfg::base("epoll");
            c.insertable = vec![FD_RL, FD_RO, KindSpec::Ping, KindSpec::Chan, KindSpec::Exec, KindSpec::Async];
            c.reconf = vec![(true, false, 0), (true, true, 1), (false, true, 2)];
            c.max_actors = if q { 3 } else { 4 };
            c.depth = if q { 4 } else { 6 };
            c.top_cause2 = true;
            c.top_release = true;
            c.top_dup = true;
            c.defer_release = true;
            c.end_order_choice = true;
            c.cb_remove = true;
            c.cb_cause = false;
            c.check_epoll = true;
            c.prune = true;
            c.final_dispatches = 1;
            (c, if q { 1 } else { 2 })
        }
        // C10 (StreamSource): items in order exactly once, a single None, then the source is gone
        "stream-seq" => {
            let mut c = Cfg::base("stream-seq");
            c.initial_sets = vec![vec![KindSpec::Stream], vec![KindSpec::Stream, KindSpec::Ping], vec![KindSpec::Stream, KindSpec::Stream]];
            c.max_actors = 2;
            c.depth = if q { 5 } else { 8 };
            c.top_update = true;
            c.cb_cause = true;
            c.cb_cause2 = true;
            c.tag_all = Some("C10");
            c.check_epoll = true;
            c.check_wait = true;
            c.top_dispatch_none = true;
            c.prune = true;
            c.final_dispatches = 2;
            (c, if q { 1 } else { 2 })
        }
        // C10 (sequential half): schedule / complete / remove histories of an executor
        "exec-seq" => {
            let mut c = Cfg::base("exec-seq");
            c.initial_sets = vec![vec![KindSpec::Exec], vec![KindSpec::Exec, KindSpec::Ping]];
            c.max_actors = 2;
            c.depth = if q { 5 } else { 8 };
            c.max_cb_ops = 1;
            c.top_update = true;
            c.cb_cause = true;
            c.exec_pending = true;
            c.exec_initial_pending = 2;
            c.tag_all = Some("C10");
            c.check_epoll = true;
            c.check_wait = true;
            c.top_dispatch_none = true;
            c.prune = true;
            c.final_dispatches = 2;
            (c, if q { 1 } else { 2 })
        }
        // C08: every handle operation from inside every kind of callback (and from idles inserted
        // by callbacks), aimed at the running source, another one, or a freshly inserted one
        "reentrancy" => {
            let mut c = Cfg::base("reentrancy");
            c.initial_sets = vec![
                vec![KindSpec::Ping, KindSpec::Chan, KindSpec::Timer(-1)],
                vec![FD_RL, KindSpec::Exec, KindSpec::Ping],
                vec![KindSpec::ExecIo, KindSpec::Chan],
                vec![KindSpec::Timer(-1), KindSpec::Exec, FD_RO],
                vec![KindSpec::Chan, KindSpec::ExecIo, KindSpec::Timer(-1)],
            ];
            c.insertable = vec![KindSpec::Ping, KindSpec::Chan, KindSpec::Timer(-1), FD_RL, KindSpec::Exec, KindSpec::Async];
            c.reconf = vec![(true, false, 0), (true, true, 0)];
            c.max_actors = 5;
            c.depth = if q { 3 } else { 4 };
            c.max_cb_ops = if q { 1 } else { 2 };
            c.top_remove = false;
            c.top_disable = true;
            c.top_update = false;
            c.top_cause2 = false;
            c.cb_insert = true;
            c.cb_remove_self_insert = true;
            c.cb_cause2 = true;
            c.cb_idle = true;
            c.check_epoll = true;
            c.tag_all = Some("C08");
            c.cb_set_deadline = vec![2];
            c.prune = false;
            c.final_dispatches = 2;
            (c, if q { 1 } else { 2 })
        }
        _ => return None,
    })
}

pub fn run(args: &Args) -> Option<Report> {
    let (mut cfg, max_dev) = cfg_for(&args.driver, &args.tier)?;
    if let Some(d) = args.opt("depth") {
        cfg.depth = d.parse().unwrap();
    }
    let max_dev = args.opt_u("dev", max_dev as u64) as u32;
    let cfg = Rc::new(cfg);
    crate::seqhooks::install();
    crate::quiet_panics();

    if let Some(path) = &args.replay {
        let v: serde_json::Value = serde_json::from_str(&std::fs::read_to_string(path).unwrap()).unwrap();
        let tape: Vec<u32> = v["tape"].as_array().unwrap().iter().map(|x| x.as_u64().unwrap() as u32).collect();
        TAPE.with(|t| *t.borrow_mut() = Tape::new(tape));
        let (out, log) = run_history(&cfg, true);
        for l in log.unwrap_or_default() {
            println!("{l}");
        }
        println!("ops: {:?}", out.decoded);
        for v in &out.violations {
            println!("REPLAY-VIOLATION {}", v.signature());
        }
        if let Some(d) = TAPE.with(|t| t.borrow().diverged.clone()) {
            println!("REPLAY-DIVERGED {d}");
        }
        return None;
    }

    let ecfg = Config {
        max_dev,
        max_depth: cfg.depth,
        shard: args.shard,
        shard_depth: 3,
        wall_cap_s: args.opt_u("wall", if args.tier == "quick" { 120 } else { 600 }) as f64,
        exec_cap: args.opt_u("execs", u64::MAX / 2),
        prune: cfg.prune,
        n_samples: 3,
        seed: args.seed,
    };
    let c2 = cfg.clone();
    let rep = explore::explore(&args.driver, &ecfg, move |tape: &mut Tape| {
        TAPE.with(|t| std::mem::swap(&mut *t.borrow_mut(), tape));
        let (mut out, _) = run_history(&c2, false);
        TAPE.with(|t| std::mem::swap(&mut *t.borrow_mut(), tape));
        let choices = tape.choices();
        for v in out.violations.iter_mut() {
            v.tape = choices.clone();
            v.decoded = out.decoded.clone();
        }
        out
    });
    Some(rep)
}
