//! Engine S driver for C18: `TransientSource` keeps its child's registration in step with its state.
//!
//! A host composite (TransientSource<Child> + a control ping) lives in a real loop. The child is an
//! instrumented source (ping- or timer-backed) whose post-action is scripted by the tape. Changes
//! (remove / replace / map) are made either from inside the host's process_events (which then
//! returns Reregister) or from outside followed by update(), as the documentation asks.

use std::cell::{Cell, RefCell};
use std::collections::BTreeMap;
use std::hash::{Hash, Hasher};
use std::rc::Rc;
use std::time::Duration;

use calloop::ping::{make_ping, Ping, PingSource};
use calloop::timer::{TimeoutAction, Timer};
use calloop::transient::TransientSource;
use calloop::{
    Dispatcher, EventLoop, EventSource, LoopHandle, Poll, PostAction, Readiness, RegistrationToken, Token, TokenFactory,
};

use crate::epoll;
use crate::explore::{self, Config, Kind, Outcome, Report, Tape, Violation, TAPE};
use crate::seqhooks;
use crate::tracked::Track;
use crate::Args;

enum Inner {
    Ping(PingSource),
    Timer(Timer),
}

/// Instrumented child: counts registration calls, checks their alternation, scripted post-action.
struct Child {
    id: usize,
    inner: Inner,
    track: Rc<Track>,
}

impl Default for Child {
    /// only needed for the `T: Default` bound that `#[derive(Default)]` puts on
    /// `TransientSource<T>`; an empty wrapper never constructs a child
    fn default() -> Self {
        unreachable!("TransientSource::default() does not build a child")
    }
}

impl Drop for Child {
    fn drop(&mut self) {
        self.track.src_dropped.set(self.track.src_dropped.get() + 1);
        if self.track.registered.get() {
            LIVE_REG.with(|l| l.set(l.get() - 1));
            self.track.dropped_while_registered.set(self.track.dropped_while_registered.get() + 1);
        }
    }
}

thread_local! {
    /// children of the wrapper that hold a registration right now / registration calls made while
    /// another child still held one
    static LIVE_REG: Cell<i32> = const { Cell::new(0) };
    static OVERLAP: Cell<u32> = const { Cell::new(0) };
}

fn bump(c: &Cell<u32>) {
    c.set(c.get() + 1)
}

impl EventSource for Child {
    type Event = usize;
    type Metadata = ();
    type Ret = PostAction;
    type Error = Box<dyn std::error::Error + Sync + Send>;

    fn process_events<F>(&mut self, readiness: Readiness, token: Token, mut callback: F) -> Result<PostAction, Self::Error>
    where
        F: FnMut(usize, &mut ()) -> PostAction,
    {
        bump(&self.track.pe_seq);
        let id = self.id;
        let mut ret = PostAction::Continue;
        match &mut self.inner {
            Inner::Ping(p) => {
                // a closed ping answers Remove by itself: the harness keeps the handle alive
                let _ = p.process_events(readiness, token, |(), _| {
                    ret = callback(id, &mut ());
                })?;
            }
            Inner::Timer(t) => {
                let _ = t.process_events(readiness, token, |_, _| {
                    ret = callback(id, &mut ());
                    // re-arm far away so that the timer stays a live child unless told otherwise
                    TimeoutAction::ToDuration(Duration::from_secs(3600))
                })?;
            }
        }
        Ok(ret)
    }

    fn register(&mut self, poll: &mut Poll, tf: &mut TokenFactory) -> calloop::Result<()> {
        bump(&self.track.reg);
        let r = match &mut self.inner {
            Inner::Ping(p) => p.register(poll, tf),
            Inner::Timer(t) => t.register(poll, tf),
        };
        if r.is_ok() {
            if self.track.registered.get() {
                bump(&self.track.double_reg);
            } else {
                if LIVE_REG.with(|l| l.get()) > 0 {
                    OVERLAP.with(|o| o.set(o.get() + 1));
                }
                LIVE_REG.with(|l| l.set(l.get() + 1));
            }
            self.track.registered.set(true);
        } else {
            bump(&self.track.reg_err);
        }
        r
    }

    fn reregister(&mut self, poll: &mut Poll, tf: &mut TokenFactory) -> calloop::Result<()> {
        bump(&self.track.rereg);
        if !self.track.registered.get() {
            // re-registering an unregistered child
            bump(&self.track.double_unreg);
        }
        match &mut self.inner {
            Inner::Ping(p) => p.reregister(poll, tf),
            Inner::Timer(t) => t.reregister(poll, tf),
        }
    }

    fn unregister(&mut self, poll: &mut Poll) -> calloop::Result<()> {
        bump(&self.track.unreg);
        if !self.track.registered.get() {
            bump(&self.track.double_unreg);
        }
        let r = match &mut self.inner {
            Inner::Ping(p) => p.unregister(poll),
            Inner::Timer(t) => t.unregister(poll),
        };
        if self.track.registered.get() {
            LIVE_REG.with(|l| l.set(l.get() - 1));
        }
        self.track.registered.set(false);
        if r.is_err() {
            bump(&self.track.reg_err);
        }
        r
    }
}

#[derive(Clone, Copy, Debug, PartialEq, Eq, Hash)]
enum Change {
    Remove,
    Replace(bool), // timer child?
    Map,
}

struct Shared {
    /// change to perform inside the host's process_events when the control ping fires
    ctl: Cell<Option<Change>>,
    /// values returned by TransientSource::process_events
    wrapper_returns: RefCell<Vec<PostAction>>,
    map_hits: Cell<u32>,
    host_reg: Cell<u32>,
    host_unreg: Cell<u32>,
    host_rereg: Cell<u32>,
    host_registered: Cell<bool>,
    parent_protocol_broken: Cell<bool>,
    /// change to perform at the end of the very process_events call in which the child fired
    ctl_same: Cell<Option<Change>>,
    child_fired: Cell<bool>,
    /// the parent answers Disable itself in the call in which the child fired
    host_disable: Cell<bool>,
    /// factory for replacement children (filled by the context before the change)
    next_child: RefCell<Option<Child>>,
}

struct Host {
    ts: TransientSource<Child>,
    ctl: PingSource,
    sh: Rc<Shared>,
}

impl EventSource for Host {
    type Event = usize;
    type Metadata = ();
    type Ret = PostAction;
    type Error = Box<dyn std::error::Error + Sync + Send>;

    fn process_events<F>(&mut self, readiness: Readiness, token: Token, callback: F) -> Result<PostAction, Self::Error>
    where
        F: FnMut(usize, &mut ()) -> PostAction,
    {
        self.sh.child_fired.set(false);
        let r = self.ts.process_events(readiness, token, callback)?;
        self.sh.wrapper_returns.borrow_mut().push(r);
        let mut out = r;
        if self.sh.child_fired.get() {
            // a change made in the same call in which the child fired (before any re-registration)
            if let Some(ch) = self.sh.ctl_same.take() {
                apply_change(&mut self.ts, ch, &self.sh);
                out = PostAction::Reregister;
            }
            if self.sh.host_disable.take() {
                // the parent disables itself: the loop calls unregister() instead of reregister()
                return Ok(PostAction::Disable);
            }
        }
        let mut fired = false;
        self.ctl.process_events(readiness, token, |(), _| fired = true)?;
        if fired {
            if let Some(ch) = self.sh.ctl.take() {
                apply_change(&mut self.ts, ch, &self.sh);
                if ch != Change::Map {
                    out |= PostAction::Reregister;
                    out = PostAction::Reregister;
                }
            }
        }
        Ok(out)
    }

    // The control ping registers first: the transient child then always gets the last sub-id, so
    // that a child going away never shifts the sub-id of a sibling (that hazard belongs to C01).
    fn register(&mut self, poll: &mut Poll, tf: &mut TokenFactory) -> calloop::Result<()> {
        bump(&self.sh.host_reg);
        self.ctl.register(poll, tf)?;
        self.ts.register(poll, tf)?;
        self.sh.host_registered.set(true);
        Ok(())
    }

    fn reregister(&mut self, poll: &mut Poll, tf: &mut TokenFactory) -> calloop::Result<()> {
        bump(&self.sh.host_rereg);
        self.ctl.reregister(poll, tf)?;
        self.ts.reregister(poll, tf)?;
        Ok(())
    }

    fn unregister(&mut self, poll: &mut Poll) -> calloop::Result<()> {
        bump(&self.sh.host_unreg);
        if !self.sh.host_registered.get() {
            // the parent's own unregister calls do not alternate (the loop unregisters a disabled
            // source again when it is removed): outside the statement's premise
            self.sh.parent_protocol_broken.set(true);
        }
        let r1 = self.ctl.unregister(poll);
        let r2 = self.ts.unregister(poll);
        self.sh.host_registered.set(false);
        if self.sh.parent_protocol_broken.get() {
            return Ok(());
        }
        r1?;
        r2?;
        Ok(())
    }
}

fn apply_change(ts: &mut TransientSource<Child>, ch: Change, sh: &Shared) {
    match ch {
        Change::Remove => ts.remove(),
        Change::Replace(_) => {
            if let Some(c) = sh.next_child.borrow_mut().take() {
                ts.replace(c);
            }
        }
        Change::Map => {
            if ts.map(|_c| ()).is_some() {
                bump(&sh.map_hits);
            }
        }
    }
}

#[derive(Clone, Copy, Debug, PartialEq, Eq, Hash)]
enum TOp {
    Dispatch,
    /// child event + a change at the end of the same process_events call
    SameCall(Change),
    ChildEvent,
    OldChildEvent,
    InPe(Change),
    Outside(Change),
    HostDisable,
    HostEnable,
    HostUpdate,
    HostRemove,
}

#[derive(Clone, Debug, Hash)]
struct MChild {
    timer: bool,
    current: bool,
    /// the child asked to be disabled (returned Disable)
    self_disabled: bool,
    gone: bool,
    pinged: bool,
    ever_self_disabled: bool,
}

struct Ctx {
    h: LoopHandle<'static, Ctx>,
    sh: Rc<Shared>,
    /// the parent answered Disable in this dispatch
    host_self_disabled: bool,
    /// a remove() made while the parent is unregistered waits for the parent's register()
    pending_remove: bool,
    parent_unregistered: bool,
    allow_host_disable: bool,
    children: Vec<MChild>,
    tracks: Vec<Rc<Track>>,
    pings: Vec<Option<Ping>>,
    violations: Vec<Violation>,
    decoded: Vec<String>,
    callbacks: u64,
    deviated: bool,
    obs: std::collections::hash_map::DefaultHasher,
    verbose: Option<Vec<String>>,
}

impl Ctx {
    fn violate(&mut self, clause: &str, feats: &[(&str, String)], msg: String) {
        let mut features = BTreeMap::new();
        for (k, v) in feats {
            features.insert(k.to_string(), v.clone());
        }
        features.insert("a_child_disabled_itself".to_string(), self.children.iter().any(|c| c.ever_self_disabled).to_string());
        if let Some(v) = self.verbose.as_mut() {
            v.push(format!("!! VIOLATION {clause}: {msg}"));
        }
        self.violations.push(Violation {
            props: vec!["C18".into()],
            clause: clause.into(),
            features,
            message: msg,
            tape: vec![],
            decoded: vec![],
        });
    }

    fn violate_props(&mut self, props: &[&str], clause: &str, feats: &[(&str, String)], msg: String) {
        self.violate(clause, feats, msg);
        if let Some(v) = self.violations.last_mut() {
            v.props = props.iter().map(|p| p.to_string()).collect();
        }
    }

    fn new_child(&mut self, timer: bool) -> Child {
        let id = self.children.len();
        let track = Track::new();
        let (inner, ping) = if timer {
            (Inner::Timer(Timer::from_deadline(seqhooks::base() + Duration::from_secs(1 + id as u64))), None)
        } else {
            let (p, s) = make_ping().expect("ping");
            (Inner::Ping(s), Some(p))
        };
        self.children.push(MChild { timer, current: false, self_disabled: false, gone: false, pinged: false, ever_self_disabled: false });
        self.tracks.push(track.clone());
        self.pings.push(ping);
        Child { id, inner, track }
    }

    fn current(&self) -> Option<usize> {
        self.children.iter().position(|c| c.current)
    }

    fn on_child_event(&mut self, id: usize) -> PostAction {
        self.callbacks += 1;
        format!("child {id}").hash(&mut self.obs);
        if let Some(v) = self.verbose.as_mut() {
            v.push(format!("event from child {id}"));
        }
        if !self.children[id].current {
            let gone = self.children[id].gone;
            self.violate("event-from-stale-child", &[("gone", gone.to_string())], format!("an event was forwarded from child {id}, which is not the current child"));
        }
        if !self.children[id].pinged && !self.children[id].timer {
            // the child is a plain PingSource: this is also C03's "no callback without a ping"
            self.violate("child-event-without-cause", &[], format!("child {id} (a ping source) fired without a ping"));
            if let Some(v) = self.violations.last_mut() {
                v.props.push("C03".into());
                v.props.push("C01".into());
            }
        }
        self.children[id].pinged = false;
        self.sh.child_fired.set(true);
        let c = explore::choose(4, Kind::Dev);
        let ret = [PostAction::Continue, PostAction::Reregister, PostAction::Disable, PostAction::Remove][c as usize];
        if c != 0 {
            self.deviated = true;
            self.decoded.push(format!("  child {id} returns {ret:?}"));
        }
        match ret {
            PostAction::Disable => {
                self.children[id].self_disabled = true;
                self.children[id].ever_self_disabled = true;
            }
            PostAction::Remove => {
                self.children[id].current = false;
                self.children[id].gone = true;
            }
            _ => {}
        }
        // the parent may answer Disable itself in this very call (the loop then calls its
        // unregister() with the child's request still pending)
        // (never together with a change made in the same call: the documented protocol wants
        // Reregister to be returned after a change)
        if self.allow_host_disable && self.sh.ctl_same.get().is_none() && explore::choose(2, Kind::Dev) == 1 {
            self.deviated = true;
            self.decoded.push("  parent returns Disable".to_string());
            self.sh.host_disable.set(true);
            self.host_self_disabled = true;
        }
        ret
    }
}

fn run_one(quick: bool, verbose: bool) -> Outcome {
    seqhooks::reset();
    LIVE_REG.with(|l| l.set(0));
    OVERLAP.with(|o| o.set(0));
    let mut out = Outcome::default();
    let mut el: EventLoop<'static, Ctx> = EventLoop::try_new().expect("loop");
    let epfd = std::os::fd::AsRawFd::as_raw_fd(&el);
    let sh = Rc::new(Shared {
        ctl: Cell::new(None),
        wrapper_returns: RefCell::new(vec![]),
        map_hits: Cell::new(0),
        host_reg: Cell::new(0),
        host_unreg: Cell::new(0),
        host_rereg: Cell::new(0),
        host_registered: Cell::new(false),
        parent_protocol_broken: Cell::new(false),
        ctl_same: Cell::new(None),
        child_fired: Cell::new(false),
        host_disable: Cell::new(false),
        next_child: RefCell::new(None),
    });
    let mut ctx = Ctx {
        h: el.handle(),
        sh: sh.clone(),
        host_self_disabled: false,
        pending_remove: false,
        parent_unregistered: false,
        allow_host_disable: true,
        children: vec![],
        tracks: vec![],
        pings: vec![],
        violations: vec![],
        decoded: vec![],
        callbacks: 0,
        deviated: false,
        obs: std::collections::hash_map::DefaultHasher::new(),
        verbose: if verbose { Some(vec![]) } else { None },
    };
    // start: From<T> with a ping child, From<T> with a timer child, or Default (empty)
    let start = explore::choose(3, Kind::Free);
    let ts: TransientSource<Child> = match start {
        0 => {
            let c = ctx.new_child(false);
            ctx.children[0].current = true;
            c.into()
        }
        1 => {
            let c = ctx.new_child(true);
            ctx.children[0].current = true;
            c.into()
        }
        _ => Default::default(),
    };
    ctx.decoded.push(format!("start {}", ["From(ping child)", "From(timer child)", "Default"][start as usize]));
    let (ctl_ping, ctl_src) = make_ping().expect("ping");
    let host = Host { ts, ctl: ctl_src, sh: sh.clone() };
    let disp: Dispatcher<'static, Host, Ctx> = Dispatcher::new(host, |id, _, ctx: &mut Ctx| ctx.on_child_event(id));
    let token: RegistrationToken = el.handle().register_dispatcher(disp.clone()).expect("register host");
    let mut host_alive = true;
    let mut host_enabled = true;
    let mut transitions = 0u64;
    let depth = if quick { 5 } else { 7 };
    let mut clauses: Vec<&'static str> = vec!["transient"];
    let mut errors_seen = 0u32;

    let check = |ctx: &mut Ctx, host_alive: bool, host_enabled: bool, when: &str, sh: &Shared| {
        // a child is only ever registered while it is the current child: at no registration call
        // the wrapper makes may another (replaced, removed) child still hold its registration —
        // with a replacement over the same descriptor that call would fail
        if OVERLAP.with(|o| o.replace(0)) > 0 {
            ctx.violate("child-registered-while-previous-child-still-registered", &[], format!("{when}: a child was registered while another child of the wrapper still held its registration"));
        }
        // per child: alternation, never dropped while registered, registered iff current+kept+host registered
        for i in 0..ctx.children.len() {
            let tr = ctx.tracks[i].clone();
            let c = ctx.children[i].clone();
            if tr.double_reg.get() > 0 {
                tr.double_reg.set(0);
                ctx.violate("child-registered-twice", &[], format!("{when}: child {i} was registered while already registered"));
            }
            if tr.double_unreg.get() > 0 && sh.parent_protocol_broken.get() {
                tr.double_unreg.set(0);
            }
            if tr.double_unreg.get() > 0 {
                let sd = c.self_disabled;
                tr.double_unreg.set(0);
                ctx.violate("child-unregistered-twice", &[("child_disabled_itself", sd.to_string())], format!("{when}: child {i} was unregistered (or re-registered) while not registered"));
            }
            if tr.dropped_while_registered.get() > 0 {
                tr.dropped_while_registered.set(0);
                ctx.violate("child-dropped-while-registered", &[], format!("{when}: child {i} was dropped while still registered"));
            }
            if tr.src_dropped.get() > 1 {
                ctx.violate("child-dropped-twice", &[], format!("{when}: child {i} dropped {} times", tr.src_dropped.get()));
            }
            let want = c.current && !c.self_disabled && host_alive && host_enabled;
            if !(host_alive && host_enabled) && tr.registered.get() && tr.src_dropped.get() == 0 && !sh.parent_protocol_broken.get() {
                ctx.violate("child-registered-under-unregistered-parent", &[], format!("{when}: the parent is not registered but child {i} still is"));
                continue;
            }
            if c.self_disabled && c.current {
                // Whether a later parent register() (disable + enable of the parent) brings back a
                // child that disabled itself is left to the implementation (the model follows it at
                // HostEnable). Anything short of that - a mere re-registration of the parent - must
                // not: the child asked to be disabled and nobody enabled anything (C07).
                if tr.registered.get() && host_alive && host_enabled && !sh.parent_protocol_broken.get() {
                    ctx.violate_props(
                        &["C18", "C07"],
                        "disabled-child-registered-again",
                        &[],
                        format!("{when}: child {i} returned Disable and was unregistered, but it is registered again although the parent was only re-registered, never enabled"),
                    );
                }
                continue;
            }
            if tr.registered.get() != want {
                ctx.violate(
                    "child-registration-out-of-step",
                    &[("registered", tr.registered.get().to_string()), ("current", c.current.to_string())],
                    format!("{when}: child {i} registered={} but it is current={} with the parent registered={}", tr.registered.get(), c.current, host_alive && host_enabled),
                );
            }
            if c.gone && !c.current && host_alive && host_enabled && tr.src_dropped.get() == 0 && tr.registered.get() {
                ctx.violate("removed-child-still-registered", &[], format!("{when}: removed child {i} is still registered"));
            }
        }
        for r in sh.wrapper_returns.borrow_mut().drain(..) {
            if !matches!(r, PostAction::Continue | PostAction::Reregister) {
                ctx.violate("wrapper-returned-other-action", &[], format!("TransientSource::process_events returned {r:?}"));
            }
        }
    };

    for _ in 0..depth {
        // menu
        let mut menu = vec![TOp::Dispatch];
        let cur = ctx.current();
        if host_alive {
            if let Some(c) = cur {
                if !ctx.children[c].timer && !ctx.children[c].pinged {
                    menu.push(TOp::ChildEvent);
                }
            }
            if ctx.children.iter().enumerate().any(|(i, c)| !c.current && !c.timer && ctx.pings[i].is_some() && !c.pinged) {
                menu.push(TOp::OldChildEvent);
            }
            let changes = if ctx.children.len() < 4 {
                vec![Change::Remove, Change::Replace(false), Change::Replace(true), Change::Map]
            } else {
                vec![Change::Remove, Change::Map]
            };
            for ch in changes {
                if host_enabled && sh.ctl.get().is_none() {
                    menu.push(TOp::InPe(ch));
                    if let Some(c) = cur {
                        if !ctx.children[c].timer && !ctx.children[c].pinged && !ctx.children[c].self_disabled && ch != Change::Map {
                            menu.push(TOp::SameCall(ch));
                        }
                    }
                }
                // also while the parent is disabled (unregistered): the change is then followed
                // by the parent's register() at enable(), which is the re-registration
                if host_enabled || ch != Change::Map {
                    menu.push(TOp::Outside(ch));
                }
            }
            if host_enabled {
                menu.push(TOp::HostDisable);
                menu.push(TOp::HostUpdate);
            } else {
                menu.push(TOp::HostEnable);
            }
            menu.push(TOp::HostRemove);
        }
        let c = explore::choose(menu.len() as u32 + 1, Kind::Top);
        if c == 0 {
            break;
        }
        let op = menu[c as usize - 1];
        transitions += 1;
        ctx.decoded.push(format!("{op:?}"));
        if let Some(v) = ctx.verbose.as_mut() {
            v.push(format!("op {op:?}"));
        }
        let mut model_change = |ctx: &mut Ctx, ch: Change, newc: Option<usize>| match ch {
            Change::Remove => {
                if let Some(c) = ctx.current() {
                    ctx.children[c].current = false;
                    ctx.children[c].gone = true;
                    ctx.pending_remove = ctx.parent_unregistered;
                }
            }
            Change::Replace(_) => {
                if let Some(c) = ctx.current() {
                    ctx.children[c].current = false;
                    ctx.children[c].gone = true;
                    if let Some(n) = newc {
                        ctx.children[n].current = true;
                    }
                } else if let (Some(n), true) = (newc, ctx.pending_remove) {
                    // the removal has not been carried out yet (no registration call since): the
                    // wrapper still holds the removed child, and replace() swaps the newcomer in
                    ctx.children[n].current = true;
                    ctx.pending_remove = false;
                } else if let Some(n) = newc {
                    // replace() on an empty wrapper does nothing: the new source is dropped
                    ctx.children[n].gone = true;
                }
            }
            Change::Map => {}
        };
        match op {
            TOp::Dispatch => {
                let r = el.dispatch(Some(Duration::ZERO), &mut ctx);
                if let Err(e) = r {
                    errors_seen += 1;
                    ctx.violate("dispatch-error", &[], format!("dispatch failed: {e}"));
                }
            }
            TOp::SameCall(ch) => {
                let c = ctx.current().unwrap();
                let mut newc = None;
                if let Change::Replace(t) = ch {
                    let nc = ctx.new_child(t);
                    newc = Some(nc.id);
                    *sh.next_child.borrow_mut() = Some(nc);
                }
                sh.ctl_same.set(Some(ch));
                ctx.pings[c].as_ref().unwrap().ping();
                ctx.children[c].pinged = true;
                let r = el.dispatch(Some(Duration::ZERO), &mut ctx);
                if let Err(e) = r {
                    errors_seen += 1;
                    ctx.violate("dispatch-error", &[], format!("dispatch failed: {e}"));
                }
                // the wrapper still held the child when the change was made (even if the child had
                // just asked to be removed): the change applies to it
                sh.ctl_same.set(None);
                ctx.children[c].current = false;
                ctx.children[c].gone = true;
                if let Some(n) = newc {
                    ctx.children[n].current = true;
                }
                clauses.push("change-in-same-call");
            }
            TOp::ChildEvent => {
                let c = ctx.current().unwrap();
                ctx.pings[c].as_ref().unwrap().ping();
                ctx.children[c].pinged = true;
            }
            TOp::OldChildEvent => {
                let i = ctx.children.iter().enumerate().position(|(i, c)| !c.current && !c.timer && ctx.pings[i].is_some() && !c.pinged).unwrap();
                ctx.pings[i].as_ref().unwrap().ping();
                // nothing may come of it
            }
            TOp::InPe(ch) => {
                let mut newc = None;
                if let Change::Replace(t) = ch {
                    let c = ctx.new_child(t);
                    newc = Some(c.id);
                    *sh.next_child.borrow_mut() = Some(c);
                }
                sh.ctl.set(Some(ch));
                ctl_ping.ping();
                // takes effect in the next dispatch; the model is updated now and the
                // registration is compared after that dispatch
                let r = el.dispatch(Some(Duration::ZERO), &mut ctx);
                if let Err(e) = r {
                    errors_seen += 1;
                    ctx.violate("dispatch-error", &[], format!("dispatch failed: {e}"));
                }
                if sh.ctl.get().is_some() {
                    // the control event was not processed (the parent disabled itself earlier in
                    // this batch): the change did not happen
                    sh.ctl.set(None);
                    if sh.next_child.borrow_mut().take().is_some() {
                        if let Some(n) = newc {
                            ctx.children[n].gone = true;
                        }
                    }
                } else {
                    model_change(&mut ctx, ch, newc);
                    clauses.push("change-in-process-events");
                }
            }
            TOp::Outside(ch) => {
                ctx.parent_unregistered = !host_enabled;
                let mut newc = None;
                if let Change::Replace(t) = ch {
                    let c = ctx.new_child(t);
                    newc = Some(c.id);
                    *sh.next_child.borrow_mut() = Some(c);
                }
                {
                    let mut host = disp.as_source_mut();
                    apply_change(&mut host.ts, ch, &sh);
                }
                model_change(&mut ctx, ch, newc);
                if ch != Change::Map && host_enabled {
                    // documented protocol: re-register after each change
                    if let Err(e) = ctx.h.update(&token) {
                        errors_seen += 1;
                        ctx.violate("update-error", &[], format!("update() after {ch:?} failed: {e:?}"));
                    }
                }
                clauses.push(if host_enabled { "change-from-outside" } else { "change-while-parent-disabled" });
            }
            TOp::HostDisable => {
                if let Err(e) = ctx.h.disable(&token) {
                    errors_seen += 1;
                    let sd = ctx.current().map(|c| ctx.children[c].self_disabled).unwrap_or(false);
                    ctx.violate("host-disable-error", &[("child_disabled_itself", sd.to_string())], format!("disable() of the parent failed: {e:?}"));
                }
                host_enabled = false;
            }
            TOp::HostEnable => {
                if let Err(e) = ctx.h.enable(&token) {
                    errors_seen += 1;
                    ctx.violate("host-enable-error", &[], format!("enable() of the parent failed: {e:?}"));
                }
                host_enabled = true;
                ctx.pending_remove = false;
                ctx.parent_unregistered = false;
                // a child that had disabled itself: re-registration by the parent's register() is
                // implementation-defined; the model follows what happened
                if let Some(c) = ctx.current() {
                    if ctx.children[c].self_disabled && ctx.tracks[c].registered.get() {
                        ctx.children[c].self_disabled = false;
                    }
                }
            }
            TOp::HostUpdate => {
                if let Err(e) = ctx.h.update(&token) {
                    errors_seen += 1;
                    let sd = ctx.current().map(|c| ctx.children[c].self_disabled).unwrap_or(false);
                    ctx.violate("host-update-error", &[("child_disabled_itself", sd.to_string())], format!("update() of the parent failed: {e:?}"));
                }
            }
            TOp::HostRemove => {
                ctx.h.remove(token);
                host_alive = false;
                host_enabled = false;
            }
        }
        if ctx.host_self_disabled {
            ctx.host_self_disabled = false;
            host_enabled = false;
            clauses.push("parent-disables-itself");
        }
        check(&mut ctx, host_alive, host_enabled, &format!("after {op:?}"), &sh);
        // kernel view: the control ping plus the current registered ping child
        if host_alive && host_enabled {
            let table = epoll::table(epfd);
            let want = 1 + ctx
                .children
                .iter()
                .enumerate()
                .filter(|(i, c)| !c.timer && ctx.tracks[*i].registered.get() && ctx.tracks[*i].src_dropped.get() == 0)
                .count();
            if table.len() != want && errors_seen == 0 {
                ctx.violate("epoll-out-of-step", &[], format!("epoll holds {} fds, expected {want} (control ping + registered ping children): {table:?}", table.len()));
            }
        }
    }
    let _ = errors_seen;
    // end: dropping everything releases every child exactly once
    let Ctx { h, children, tracks, pings, mut violations, decoded, callbacks, deviated, obs, verbose: vlog, .. } = ctx;
    drop(disp);
    drop(h);
    drop(el);
    sh.next_child.borrow_mut().take();
    for (i, t) in tracks.iter().enumerate() {
        if t.src_dropped.get() != 1 {
            violations.push(Violation {
                props: vec!["C18".into(), "C06".into()],
                clause: "child-not-released-once".into(),
                features: BTreeMap::new(),
                message: format!("child {i} dropped {} times after everything was dropped", t.src_dropped.get()),
                tape: vec![],
                decoded: vec![],
            });
        }
    }
    drop(pings);
    let _ = children;
    if verbose {
        for l in vlog.unwrap_or_default() {
            println!("{l}");
        }
    }
    out.violations = violations;
    out.decoded = decoded;
    out.callbacks = callbacks;
    out.transitions = transitions;
    out.nontrivial = callbacks > 0 && deviated;
    out.observation = obs.finish();
    out.clauses = clauses;
    out
}

pub fn run(args: &Args) -> Option<Report> {
    crate::seqhooks::install();
    crate::quiet_panics();
    let quick = args.tier == "quick";
    if let Some(path) = &args.replay {
        let v: serde_json::Value = serde_json::from_str(&std::fs::read_to_string(path).unwrap()).unwrap();
        let tape: Vec<u32> = v["tape"].as_array().unwrap().iter().map(|x| x.as_u64().unwrap() as u32).collect();
        TAPE.with(|t| *t.borrow_mut() = Tape::new(tape));
        let out = run_one(quick, true);
        println!("ops: {:?}", out.decoded);
        for v in &out.violations {
            println!("REPLAY-VIOLATION {}", v.signature());
        }
        return None;
    }
    let ecfg = Config {
        max_dev: args.opt_u("dev", if quick { 2 } else { 3 }) as u32,
        max_depth: 7,
        shard: args.shard,
        shard_depth: 3,
        wall_cap_s: args.opt_u("wall", if quick { 120 } else { 600 }) as f64,
        exec_cap: u64::MAX / 2,
        prune: false,
        n_samples: 3,
        seed: args.seed,
    };
    let rep = explore::explore("transient", &ecfg, move |tape: &mut Tape| {
        TAPE.with(|t| std::mem::swap(&mut *t.borrow_mut(), tape));
        let mut out = run_one(quick, false);
        TAPE.with(|t| std::mem::swap(&mut *t.borrow_mut(), tape));
        let choices = tape.choices();
        for v in out.violations.iter_mut() {
            v.tape = choices.clone();
            v.decoded = out.decoded.clone();
        }
        out.fingerprint = Some(explore::fxhash(&choices));
        out
    });
    Some(rep)
}
