//! Engine S drivers over the scripted world: C09 postaction, C13 idle, C14 lifecycle, C15 faults.

use std::rc::Rc;

use crate::explore::{self, Config, Report, Tape, TAPE};
use crate::regworld::{run_history, RCfg, Ret, Spec};
use crate::Args;

const PLAIN1: Spec = Spec::Scr { life: false, nsubs: 1, timer: false };
const LIFE1: Spec = Spec::Scr { life: true, nsubs: 1, timer: false };
const LIFE3: Spec = Spec::Scr { life: true, nsubs: 3, timer: false };
const PLAIN2T: Spec = Spec::Scr { life: false, nsubs: 2, timer: true };

fn base(name: &'static str) -> RCfg {
    RCfg {
        name,
        initial_sets: vec![],
        insertable: vec![],
        max_actors: 3,
        depth: 5,
        max_cb_ops: 2,
        faults: false,
        top_ops: true,
        synth: false,
        idles: false,
        max_idles: 3,
        cb_ret: vec![],
        cb_defer: false,
        cb_remove_self: false,
        cb_others: false,
        cb_idle_ops: false,
        final_dispatches: 2,
        prune: true,
        tag_all: None,
        update_disabled: false,
    }
}

pub fn cfg_for(driver: &str, tier: &str) -> Option<(RCfg, u32)> {
    let q = tier == "quick";
    Some(match driver {
        "postaction" => {
            let mut c = base("postaction");
            c.initial_sets = vec![vec![PLAIN1, PLAIN1], vec![PLAIN1, PLAIN1, PLAIN1], vec![PLAIN1, LIFE1], vec![LIFE3, PLAIN1]];
            // whatever goes wrong here went wrong while a post-action was being applied
            c.tag_all = Some("C09");
            // a callback may also operate on the other sources (after or before asking for itself)
            c.cb_others = true;
            c.max_actors = if q { 4 } else { 5 };
            c.depth = if q { 4 } else { 7 };
            c.top_ops = false;
            c.cb_ret = vec![Ret::Reregister, Ret::Disable, Ret::Remove, Ret::Err];
            c.cb_defer = true;
            c.cb_remove_self = true;
            c.max_cb_ops = 3;
            (c, if q { 2 } else { 4 })
        }
        "lifecycle" => {
            let mut c = base("lifecycle");
            c.initial_sets = if q { vec![vec![LIFE1, PLAIN1], vec![LIFE3, LIFE1]] } else { vec![vec![LIFE1, PLAIN1], vec![LIFE3, LIFE1], vec![LIFE3, PLAIN1, LIFE1]] };
            c.insertable = vec![LIFE1];
            c.max_actors = if q { 3 } else { 4 };
            c.depth = if q { 4 } else { 6 };
            c.synth = true;
            c.update_disabled = true;
            c.cb_ret = vec![Ret::Reregister, Ret::Disable, Ret::Remove];
            c.cb_defer = true;
            c.cb_others = true;
            c.max_cb_ops = 1;
            (c, if q { 1 } else { 2 })
        }
        "faults" => {
            let mut c = base("faults");
            c.initial_sets = vec![
                vec![PLAIN1, Spec::PastTimer],
                vec![LIFE1, PLAIN1],
                vec![PLAIN1],
                vec![Spec::PastTimer, PLAIN1, Spec::PastTimer],
            ];
            c.insertable = vec![PLAIN1, LIFE3, PLAIN2T];
            c.max_actors = 4;
            c.depth = if q { 4 } else { 5 };
            c.faults = true;
            c.cb_ret = vec![Ret::Reregister, Ret::Disable, Ret::Err];
            c.cb_others = true;
            c.max_cb_ops = 1;
            c.final_dispatches = 3;
            // two deviations also in the quick tier: "return a post-action" + "its registration call fails"
            (c, if q { 2 } else { 3 })
        }
        // C01: composite with a TransientSource child in front of plain siblings (positional sub-ids)
        "composite" => {
            let mut c = base("composite");
            c.initial_sets = vec![vec![Spec::Comp], vec![Spec::Comp, PLAIN1]];
            c.max_actors = 2;
            c.depth = if q { 5 } else { 7 };
            c.top_ops = true;
            c.cb_ret = vec![Ret::Reregister, Ret::Disable];
            c.cb_others = true;
            c.max_cb_ops = 1;
            (c, if q { 1 } else { 2 })
        }
        "idle" => {
            let mut c = base("idle");
            c.initial_sets = vec![vec![PLAIN1], vec![PLAIN1, PLAIN1]];
            c.max_actors = 2;
            c.depth = if q { 7 } else { 9 };
            c.max_idles = if q { 4 } else { 5 };
            c.top_ops = false;
            c.idles = true;
            c.cb_idle_ops = true;
            c.cb_ret = vec![Ret::Err];
            c.max_cb_ops = if q { 1 } else { 2 };
            (c, if q { 1 } else { 3 })
        }
        _ => return None,
    })
}

pub fn run(args: &Args) -> Option<Report> {
    let (mut cfg, max_dev) = cfg_for(&args.driver, &args.tier)?;
    if let Some(d) = args.opt("depth") {
        cfg.depth = d.parse().unwrap();
    }
    let max_dev = args.opt_u("dev", max_dev as u64) as u32;
    let cfg = Rc::new(cfg);
    crate::seqhooks::install();
    crate::quiet_panics();

    if let Some(path) = &args.replay {
        let v: serde_json::Value = serde_json::from_str(&std::fs::read_to_string(path).unwrap()).unwrap();
        let tape: Vec<u32> = v["tape"].as_array().unwrap().iter().map(|x| x.as_u64().unwrap() as u32).collect();
        TAPE.with(|t| *t.borrow_mut() = Tape::new(tape));
        let (out, log) = run_history(&cfg, true);
        for l in log.unwrap_or_default() {
            println!("{l}");
        }
        println!("ops: {:?}", out.decoded);
        for v in &out.violations {
            println!("REPLAY-VIOLATION {}", v.signature());
        }
        if let Some(d) = TAPE.with(|t| t.borrow().diverged.clone()) {
            println!("REPLAY-DIVERGED {d}");
        }
        return None;
    }
    let ecfg = Config {
        max_dev,
        max_depth: cfg.depth,
        shard: args.shard,
        shard_depth: 3,
        wall_cap_s: args.opt_u("wall", if args.tier == "quick" { 120 } else { 600 }) as f64,
        exec_cap: args.opt_u("execs", u64::MAX / 2),
        prune: cfg.prune,
        n_samples: 3,
        seed: args.seed,
    };
    let c2 = cfg.clone();
    let rep = explore::explore(&args.driver, &ecfg, move |tape: &mut Tape| {
        TAPE.with(|t| std::mem::swap(&mut *t.borrow_mut(), tape));
        let (mut out, _) = run_history(&c2, false);
        TAPE.with(|t| std::mem::swap(&mut *t.borrow_mut(), tape));
        let choices = tape.choices();
        for v in out.violations.iter_mut() {
            v.tape = choices.clone();
            v.decoded = out.decoded.clone();
        }
        out
    });
    Some(rep)
}

/// C09: the full table of `|` and `|=` on PostAction (all 16 pairs, exhaustive).
pub fn pa_table() -> Report {
    use calloop::PostAction::*;
    let all = [Continue, Reregister, Disable, Remove];
    let mut rep = Report {
        driver: "pa-table".into(),
        exhaustive: true,
        ..Default::default()
    };
    let mut outcomes = std::collections::HashSet::new();
    for a in all {
        for b in all {
            let want = if a == b { a } else { Reregister };
            let got = a | b;
            let mut c = a;
            c |= b;
            rep.executions += 2;
            rep.transitions += 2;
            outcomes.insert(format!("{got:?}"));
            if got != want || c != want {
                rep.violations.push(crate::explore::Violation {
                    props: vec!["C09".into()],
                    clause: "bitor-table".into(),
                    features: Default::default(),
                    message: format!("{a:?} | {b:?} = {got:?}, {a:?} |= {b:?} gives {c:?}, expected {want:?}"),
                    tape: vec![],
                    decoded: vec![],
                });
            }
            rep.samples.push(serde_json::json!({"lhs": format!("{a:?}"), "rhs": format!("{b:?}"), "or": format!("{got:?}")}));
        }
    }
    rep.samples.truncate(4);
    rep.states = 16;
    rep.distinct_outcomes = outcomes.len() as u64;
    rep.distinct_nontrivial = 12; // the 12 pairs with differing operands
    rep.clause_counts.insert("bitor-table".into(), 16);
    rep.violation_count = rep.violations.len() as u64;
    rep.levels_completed = vec![0];
    rep
}
