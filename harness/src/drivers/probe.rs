//! crash-probe: destructor re-entrancy scenarios that can abort the whole process (a panic inside
//! a destructor that runs during async-task's cleanup is not unwindable), so each one is executed
//! in a forked child and judged by the child's exit status (crash) and by the poller's interest list
//! afterwards (the adapter's fd must be gone). Serves C08 / C06 / C16.
//!
//! Every scenario removes (in one of the ways the loop offers) a source whose destruction needs
//! the loop again: an executor whose pending future owns an `Async` adapter of the same loop, or
//! a source whose callback closure owns one.

use std::collections::BTreeMap;
use std::os::unix::net::UnixStream;
use std::time::Duration;

use calloop::futures::executor;
use calloop::ping::make_ping;
use calloop::timer::{TimeoutAction, Timer};
use calloop::{EventLoop, LoopHandle, RegistrationToken};

use crate::explore::{Report, Violation};

struct D {
    victim: Option<RegistrationToken>,
    h: Option<LoopHandle<'static, D>>,
}

thread_local! {
    /// (fd number of an adapted socket, a duplicate that keeps its open file description alive):
    /// closing the last descriptor would make the kernel drop the epoll entry by itself and hide
    /// an adapter that failed to unregister.
    static WATCH: std::cell::RefCell<Vec<(i32, i32)>> = std::cell::RefCell::new(vec![]);
}

fn watch(s: &UnixStream) {
    use std::os::fd::AsRawFd;
    let fd = s.as_raw_fd();
    let dup = unsafe { libc::dup(fd) };
    WATCH.with(|w| w.borrow_mut().push((fd, dup)));
}

fn exec_with_adapter(h: &LoopHandle<'static, D>) -> (RegistrationToken, UnixStream, calloop::futures::Scheduler<u8>) {
    let (exec, sched) = executor::<u8>().unwrap();
    let tok = h.insert_source(exec, |_, _, d: &mut D| {
        // scenario "own callback": the executor removes itself when a task completes
        if let (Some(v), Some(h)) = (d.victim.take(), d.h.as_ref()) {
            h.remove(v);
        }
    }).unwrap();
    let (a, b) = UnixStream::pair().unwrap();
    watch(&a);
    let mut ad = h.adapt_io(a).unwrap();
    sched.schedule(async move {
        ad.readable().await;
        1u8
    }).unwrap();
    (tok, b, sched)
}

fn scenario(n: usize) -> Option<(&'static str, bool)> {
    let mut el: EventLoop<'static, D> = EventLoop::try_new().unwrap();
    let h = el.handle();
    let mut d = D { victim: None, h: Some(h.clone()) };
    let zero = Some(Duration::ZERO);
    let name = match n {
        0 => {
            let (tok, _peer, _s) = exec_with_adapter(&h);
            el.dispatch(zero, &mut d).unwrap();
            h.remove(tok);
            el.dispatch(zero, &mut d).unwrap();
            "remove(executor whose pending task owns an Async adapter) between dispatches"
        }
        1 => {
            let (tok, _peer, _s) = exec_with_adapter(&h);
            let (ping, src) = make_ping().unwrap();
            h.insert_source(src, move |_, _, d: &mut D| {
                if let Some(h) = d.h.as_ref() {
                    h.remove(tok);
                }
            }).unwrap();
            el.dispatch(zero, &mut d).unwrap();
            ping.ping();
            el.dispatch(zero, &mut d).unwrap();
            el.dispatch(zero, &mut d).unwrap();
            "remove(executor whose pending task owns an Async adapter) from another source's callback"
        }
        2 => {
            let (tok, _peer, s) = exec_with_adapter(&h);
            el.dispatch(zero, &mut d).unwrap();
            d.victim = Some(tok);
            s.schedule(async { 2u8 }).unwrap();
            el.dispatch(zero, &mut d).unwrap();
            el.dispatch(zero, &mut d).unwrap();
            "executor removes itself from its own callback while another task owns an Async adapter"
        }
        3 => {
            let (a, _b) = UnixStream::pair().unwrap();
            watch(&a);
            let ad = h.adapt_io(a).unwrap();
            let (_ping, src) = make_ping().unwrap();
            let tok = h.insert_source(src, move |_, _, _: &mut D| {
                let _keep = &ad;
            }).unwrap();
            el.dispatch(zero, &mut d).unwrap();
            h.remove(tok);
            "remove(source whose callback closure owns an Async adapter)"
        }
        4 => {
            let (a, _b) = UnixStream::pair().unwrap();
            watch(&a);
            let ad = h.adapt_io(a).unwrap();
            h.insert_source(Timer::immediate(), move |_, _, _: &mut D| {
                let _keep = &ad;
                TimeoutAction::Drop
            }).unwrap();
            el.dispatch(zero, &mut d).unwrap();
            el.dispatch(zero, &mut d).unwrap();
            "timer returning Drop whose callback closure owns an Async adapter"
        }
        5 => {
            let (a, _b) = UnixStream::pair().unwrap();
            watch(&a);
            let ad = h.adapt_io(a).unwrap();
            let (ping, src) = make_ping().unwrap();
            h.insert_source(src, move |_, _, _: &mut D| {
                let _keep = &ad;
            }).unwrap();
            drop(ping); // closed ping: the source removes itself in the next dispatch
            el.dispatch(zero, &mut d).unwrap();
            el.dispatch(zero, &mut d).unwrap();
            "closed ping (implicit removal) whose callback closure owns an Async adapter"
        }
        6 => {
            let (tok, _peer, _s) = exec_with_adapter(&h);
            el.dispatch(zero, &mut d).unwrap();
            h.disable(&tok).unwrap();
            h.remove(tok);
            "remove(disabled executor whose pending task owns an Async adapter)"
        }
        _ => return None,
    };
    d.h.take();
    // every adapter of the scenario has been dropped together with the source that owned it: its
    // fd must have left the poller (C16), although the open file description is still alive
    use std::os::fd::AsRawFd;
    let table = crate::epoll::table(el.as_raw_fd());
    let leftover = WATCH.with(|w| w.borrow().iter().any(|(fd, _)| table.iter().any(|e| e.fd == *fd)));
    Some((name, leftover))
}

pub fn run() -> Report {
    let mut rep = Report { driver: "crash-probe".into(), exhaustive: true, ..Default::default() };
    let mut n = 0;
    let mut outcomes = std::collections::HashSet::new();
    loop {
        // does scenario n exist? (cheap check in-process without running it: run in child anyway)
        let pid = unsafe { libc::fork() };
        if pid == 0 {
            // child: silence everything, run, report through the exit status
            unsafe {
                let devnull = libc::open(b"/dev/null\0".as_ptr() as *const _, libc::O_WRONLY);
                libc::dup2(devnull, 1);
                libc::dup2(devnull, 2);
            }
            let r = std::panic::catch_unwind(|| scenario(n));
            let code = match r {
                Ok(Some((_, true))) => 4,
                Ok(Some(_)) => 0,
                Ok(None) => 77,
                Err(_) => 3,
            };
            unsafe { libc::_exit(code) };
        }
        let mut st: libc::c_int = 0;
        unsafe { libc::waitpid(pid, &mut st, 0) };
        let exited = libc::WIFEXITED(st);
        let code = if exited { libc::WEXITSTATUS(st) } else { -1 };
        if exited && code == 77 {
            break;
        }
        rep.executions += 1;
        rep.transitions += 1;
        outcomes.insert((n, code));
        *rep.clause_counts.entry("destructor-reentrancy".into()).or_insert(0) += 1;
        if exited && code == 4 {
            let mut features = BTreeMap::new();
            features.insert("scenario".to_string(), n.to_string());
            rep.violations.push(Violation {
                props: vec!["C16".into(), "C17".into(), "C06".into()],
                clause: "adapter-fd-still-registered".into(),
                features,
                message: format!("scenario {n}: the Async adapter was dropped together with the removed source that owned it, but its fd is still in the poller's interest list (ghost events, EEXIST when the fd is inserted again)"),
                tape: vec![n as u32],
                decoded: vec![format!("crash-probe scenario {n}")],
            });
        } else if !(exited && code == 0) {
            let how = if exited { format!("panicked (exit status {code})") } else { format!("was killed by signal {} (abort)", libc::WTERMSIG(st)) };
            let mut features = BTreeMap::new();
            features.insert("scenario".to_string(), n.to_string());
            rep.violations.push(Violation {
                props: vec!["C08".into(), "C06".into()],
                clause: "removal-crashes-process".into(),
                features,
                message: format!("scenario {n}: the child process {how}: removing a source whose destruction needs the loop again is not safe"),
                tape: vec![n as u32],
                decoded: vec![format!("crash-probe scenario {n}")],
            });
        }
        rep.samples.push(serde_json::json!({"scenario": n, "exit": code}));
        n += 1;
    }
    rep.states = rep.executions;
    rep.distinct_outcomes = outcomes.len() as u64;
    rep.distinct_nontrivial = rep.executions;
    rep.violation_count = rep.violations.len() as u64;
    rep.levels_completed = vec![0];
    rep.samples.truncate(4);
    rep
}
