//! Engine T drivers: C03 (ping-mt), C04 (chan-mt), C10 (exec-mt), C11 (wakeup / run / block_on).
//!
//! Every driver closes the system with a small sharp harness: the loop thread (tid 0) plus one
//! or two worker threads with short programs chosen by free tape choices, so the exploration
//! covers every program combination x every schedule (all, or up to the preemption bound).

use std::collections::BTreeMap;
use std::future::Future;
use std::hash::{Hash, Hasher};
use std::sync::atomic::{AtomicBool, AtomicU64, Ordering};
use std::sync::{Arc, Mutex};
use std::time::Duration;

use calloop::ping::{make_ping, Ping};
use calloop::EventLoop;

use crate::explore::{self, Config, Kind, Outcome, Report, Tape, Violation};
use crate::sched;
use crate::Args;

/// Global logical clock: every recorded event gets a unique, execution-ordered stamp
/// (only one controlled thread runs at a time).
static STAMP: AtomicU64 = AtomicU64::new(0);
fn stamp() -> u64 {
    STAMP.fetch_add(1, Ordering::SeqCst) + 1
}

#[derive(Default, Debug)]
struct Log {
    events: Vec<(u64, String)>,
}

fn viol(props: &[&str], clause: &str, feats: &[(&str, String)], msg: String) -> Violation {
    let mut features = BTreeMap::new();
    for (k, v) in feats {
        features.insert(k.to_string(), v.clone());
    }
    Violation {
        props: props.iter().map(|s| s.to_string()).collect(),
        clause: clause.into(),
        features,
        message: msg,
        tape: vec![],
        decoded: vec![],
    }
}

fn choose_free(n: u32) -> u32 {
    sched::sched().m.lock().unwrap().tape.choose(n, Kind::Free)
}

// ------------------------------------------------------------------------------------------
// program enumeration helpers

/// All valid programs of length 1..=max over {P(ing), C(lone), D(rop)} for a thread that starts
/// with one handle; remaining handles are dropped when the thread ends.
fn ping_programs(max: usize) -> Vec<Vec<u8>> {
    let mut out = vec![];
    fn rec(cur: &mut Vec<u8>, handles: i32, max: usize, out: &mut Vec<Vec<u8>>) {
        if !cur.is_empty() {
            out.push(cur.clone());
        }
        if cur.len() == max {
            return;
        }
        for op in [b'P', b'C', b'D'] {
            let ok = match op {
                b'P' => handles > 0,
                b'C' => handles > 0 && handles < 2,
                _ => handles > 0,
            };
            if ok {
                cur.push(op);
                let h = match op {
                    b'C' => handles + 1,
                    b'D' => handles - 1,
                    _ => handles,
                };
                rec(cur, h, max, out);
                cur.pop();
            }
        }
    }
    rec(&mut vec![], 1, max, &mut out);
    // a program must contain at least one ping or drop to matter
    out
}

// ------------------------------------------------------------------------------------------
// C03: ping-mt

#[derive(Default)]
struct PingMon {
    /// pings whose eventfd write has been performed and not yet drained
    pending_written: u32,
    /// is the step about to run a ping write (vs a close write)? per thread
    in_ping_op: [bool; 4],
    /// pending count seen by the most recent drain
    last_drain_pending: u32,
    drains: u32,
}

struct PingShared {
    mon: Mutex<PingMon>,
    ping_begin: Mutex<Vec<u64>>,
    ping_end: Mutex<Vec<(u64, u64)>>, // (begin, end)
    cb_start: Mutex<Vec<u64>>,
    cb_bad: AtomicU64,
}

fn run_ping_mt(tape: &mut Tape, nthreads: usize, maxlen: usize, verbose: bool) -> Outcome {
    STAMP.store(0, Ordering::SeqCst);
    let mut out = Outcome::default();
    sched::begin(std::mem::take(tape), nthreads + 1);
    let progs = ping_programs(maxlen);
    let mut chosen: Vec<Vec<u8>> = vec![];
    for _ in 0..nthreads {
        let c = choose_free(progs.len() as u32);
        chosen.push(progs[c as usize].clone());
    }
    // loop-thread variant: 0 plain, 1 disable+enable after the first dispatch, 2 main keeps a handle
    let variant = choose_free(3);
    out.decoded.push(format!(
        "programs {:?} loop-variant {variant}",
        chosen.iter().map(|p| String::from_utf8_lossy(p).to_string()).collect::<Vec<_>>()
    ));

    let shared = Arc::new(PingShared {
        mon: Mutex::new(PingMon::default()),
        ping_begin: Mutex::new(vec![]),
        ping_end: Mutex::new(vec![]),
        cb_start: Mutex::new(vec![]),
        cb_bad: AtomicU64::new(0),
    });
    {
        let sh = shared.clone();
        sched::set_monitor(Box::new(move |tid, label| {
            let mut m = sh.mon.lock().unwrap();
            match label {
                "ping.write" => {
                    if m.in_ping_op[tid] {
                        m.pending_written += 1;
                    }
                }
                "ping.drain" => {
                    m.last_drain_pending = m.pending_written;
                    m.pending_written = 0;
                    m.drains += 1;
                }
                _ => {}
            }
        }));
    }

    let mut el: EventLoop<'static, (u32, u32)> = EventLoop::try_new().expect("loop");
    let (ping, source) = make_ping().expect("ping");
    let sh = shared.clone();
    let token = el
        .handle()
        .insert_source(source, move |(), _, d: &mut (u32, u32)| {
            d.0 += 1;
            d.1 += 1;
            sh.cb_start.lock().unwrap().push(stamp());
            let m = sh.mon.lock().unwrap();
            if m.last_drain_pending == 0 {
                sh.cb_bad.fetch_add(1, Ordering::SeqCst);
            }
        })
        .expect("insert");
    let handle = el.handle();

    let mut joins = vec![];
    let total_ops: usize = chosen.iter().map(|p| p.len()).sum();
    for (i, prog) in chosen.iter().enumerate() {
        let tid = i + 1;
        let mut handles: Vec<Ping> = vec![ping.clone()];
        let prog = prog.clone();
        let sh = shared.clone();
        joins.push(sched::spawn(tid, move || {
            for op in prog {
                sched::point("op");
                match op {
                    b'P' => {
                        let b = stamp();
                        sh.ping_begin.lock().unwrap().push(b);
                        sh.mon.lock().unwrap().in_ping_op[tid] = true;
                        handles[0].ping();
                        sh.mon.lock().unwrap().in_ping_op[tid] = false;
                        sh.ping_end.lock().unwrap().push((b, stamp()));
                    }
                    b'C' => {
                        let h = handles[0].clone();
                        handles.push(h);
                    }
                    _ => {
                        handles.pop();
                    }
                }
            }
            sched::point("end");
            drop(handles);
        }));
    }
    let main_keeps = variant == 2;
    let mut main_ping = Some(ping);
    if !main_keeps {
        main_ping.take();
    }

    // loop thread: dispatch until the execution is over
    let horizon = total_ops as u32 + nthreads as u32 + 6;
    let mut data = (0u32, 0u32);
    let mut dispatches = 0u32;
    let mut multi_cb = 0u32;
    let mut did_toggle = false;
    let mut err: Option<String> = None;
    loop {
        if sched::is_over() {
            break;
        }
        if dispatches >= horizon {
            out.violations.push(viol(
                &["C03"],
                "spinning",
                &[],
                format!("loop thread performed {dispatches} dispatches without quiescing (horizon {horizon})"),
            ));
            break;
        }
        data.1 = 0;
        match el.dispatch(None, &mut data) {
            Ok(()) => {}
            Err(e) => {
                err = Some(format!("{e}"));
                break;
            }
        }
        if sched::is_over() {
            break;
        }
        dispatches += 1;
        if data.1 > 1 {
            multi_cb += 1;
        }
        if variant == 1 && !did_toggle {
            did_toggle = true;
            sched::point("loop.disable");
            let _ = handle.disable(&token);
            sched::point("loop.enable");
            let _ = handle.enable(&token);
        }
    }
    sched::main_done();
    let (t, trace, blocked, steps, cap) = sched::end();
    *tape = t;
    for j in joins {
        let _ = j.join();
    }
    // ------------- oracle at the end of the execution
    out.transitions = steps;
    out.callbacks = data.0 as u64;
    out.clauses.push("ping-delivery");
    if cap {
        out.violations.push(viol(&["C03"], "step-cap", &[], "scheduler step cap hit".into()));
    }
    if let Some(e) = err {
        out.violations.push(viol(&["C03"], "dispatch-error", &[], format!("dispatch failed: {e}")));
    }
    let cbs = shared.cb_start.lock().unwrap().clone();
    let ends = shared.ping_end.lock().unwrap().clone();
    let all_dropped = !main_keeps;
    let stats = handle.verif_stats();
    let slot_occupied = stats.slots.iter().any(|s| s.1);
    for (k, &(b, e)) in ends.iter().enumerate() {
        if !cbs.iter().any(|&c| c > b) {
            out.violations.push(viol(
                &["C03"],
                "lost-ping",
                &[("variant", variant.to_string())],
                format!("ping #{k} (began at stamp {b}, returned at {e}) was never followed by a callback; callbacks started at {cbs:?}; loop blocked={blocked:?}"),
            ));
        }
    }
    if multi_cb > 0 {
        out.violations.push(viol(&["C03"], "not-coalesced", &[], format!("{multi_cb} dispatch(es) ran the ping callback more than once")));
    }
    let bad = shared.cb_bad.load(Ordering::SeqCst);
    if bad > 0 {
        out.violations.push(viol(&["C03", "C01"], "callback-without-ping", &[], format!("{bad} callback(s) ran although no ping had been written since the previous drain")));
    }
    if all_dropped && slot_occupied && !sched_aborted(&out) {
        out.clauses.push("ping-close");
        out.violations.push(viol(
            &["C03", "C06"],
            "closed-ping-not-removed",
            &[],
            "every Ping handle is gone and the loop is quiescent, but the source still occupies its slot".into(),
        ));
    } else if all_dropped {
        out.clauses.push("ping-close");
    }
    if !all_dropped && !slot_occupied {
        out.violations.push(viol(&["C03"], "removed-with-live-handle", &[], "the source removed itself although a Ping handle is still alive".into()));
    }
    drop(main_ping);
    let mut h = std::collections::hash_map::DefaultHasher::new();
    (data.0, dispatches, cbs.len(), ends.len(), slot_occupied).hash(&mut h);
    out.observation = h.finish();
    out.nontrivial = data.0 > 0 && t_switches(&trace) > 0;
    out.depth_used = 0;
    if verbose {
        for (tid, l) in &trace {
            println!("step t{tid} {l}");
        }
        println!("callbacks={} dispatches={dispatches} pings_returned={} slot_occupied={slot_occupied}", data.0, ends.len());
    }
    out
}

fn sched_aborted(out: &Outcome) -> bool {
    out.violations.iter().any(|v| v.clause == "spinning" || v.clause == "step-cap" || v.clause == "dispatch-error")
}

fn t_switches(trace: &[(u8, &'static str)]) -> usize {
    trace.windows(2).filter(|w| w[0].0 != w[1].0).count()
}

// ------------------------------------------------------------------------------------------
// C04: chan-mt (asynchronous channel)

#[derive(Default)]
struct ChanShared {
    sent: Mutex<Vec<(usize, u32, u64)>>, // (thread, value, stamp of return)
    delivered: Mutex<Vec<(u32, u64)>>,
    closed_at: Mutex<Vec<u64>>,
}

fn run_chan_mt(tape: &mut Tape, nthreads: usize, maxlen: usize, verbose: bool) -> Outcome {
    use calloop::channel::{channel, Event, Sender};
    STAMP.store(0, Ordering::SeqCst);
    let mut out = Outcome::default();
    sched::begin(std::mem::take(tape), nthreads + 1);
    let progs = ping_programs(maxlen); // same shape: P = send, C = clone, D = drop
    let mut chosen: Vec<Vec<u8>> = vec![];
    for _ in 0..nthreads {
        let c = choose_free(progs.len() as u32);
        chosen.push(progs[c as usize].clone());
    }
    // variant: 0 default batch limit, 1 batch limit 2, 2 main keeps a sender (no close), 3 limit 1
    let variant = choose_free(4);
    sched::set_batch(match variant { 1 => 2, 3 => 1, _ => 0 }, 0);
    out.decoded.push(format!(
        "send-programs {:?} variant {variant}",
        chosen.iter().map(|p| String::from_utf8_lossy(p).replace('P', "S")).collect::<Vec<_>>()
    ));
    let shared = Arc::new(ChanShared::default());
    let mut el: EventLoop<'static, u32> = EventLoop::try_new().expect("loop");
    let (tx, rx) = channel::<u32>();
    let sh = shared.clone();
    let _token = el
        .handle()
        .insert_source(rx, move |ev, _, n: &mut u32| {
            *n += 1;
            match ev {
                Event::Msg(v) => sh.delivered.lock().unwrap().push((v, stamp())),
                Event::Closed => sh.closed_at.lock().unwrap().push(stamp()),
            }
        })
        .expect("insert");
    let handle = el.handle();
    let mut joins = vec![];
    let kept: Arc<Mutex<Vec<Sender<u32>>>> = Arc::new(Mutex::new(vec![]));
    let total_ops: usize = chosen.iter().map(|p| p.len()).sum();
    for (i, prog) in chosen.iter().enumerate() {
        let tid = i + 1;
        let mut handles: Vec<Sender<u32>> = vec![tx.clone()];
        let prog = prog.clone();
        let sh = shared.clone();
        let keep = kept.clone();
        joins.push(sched::spawn(tid, move || {
            let mut seq = 0u32;
            for op in prog {
                sched::point("op");
                match op {
                    b'P' => {
                        let v = tid as u32 * 100 + seq;
                        seq += 1;
                        if handles[0].send(v).is_ok() {
                            sh.sent.lock().unwrap().push((tid, v, stamp()));
                        }
                    }
                    b'C' => {
                        let h = handles[0].clone();
                        handles.push(h);
                    }
                    _ => {
                        handles.pop();
                    }
                }
            }
            sched::point("end");
            if variant == 2 {
                // long-lived senders: every Sender pings the loop when it is dropped, which would
                // flush whatever a lost wake-up left in the queue; here nothing is dropped until
                // the experiment is over
                keep.lock().unwrap().append(&mut handles);
            }
            drop(handles);
        }));
    }
    let main_keeps = variant == 2;
    let mut main_tx = Some(tx);
    if !main_keeps {
        main_tx.take();
    }
    let horizon = 3 * total_ops as u32 + nthreads as u32 + 8;
    let mut n = 0u32;
    let mut dispatches = 0u32;
    let mut err = None;
    loop {
        if sched::is_over() {
            break;
        }
        if dispatches >= horizon {
            out.violations.push(viol(&["C04"], "spinning", &[], format!("{dispatches} dispatches without quiescing")));
            break;
        }
        if let Err(e) = el.dispatch(None, &mut n) {
            err = Some(format!("{e}"));
            break;
        }
        if sched::is_over() {
            break;
        }
        dispatches += 1;
    }
    sched::main_done();
    let (t, trace, blocked, steps, cap) = sched::end();
    *tape = t;
    for j in joins {
        let _ = j.join();
    }
    out.transitions = steps;
    out.callbacks = n as u64;
    out.clauses.push("channel-delivery");
    if cap {
        out.violations.push(viol(&["C04"], "step-cap", &[], "scheduler step cap hit".into()));
    }
    if let Some(e) = err {
        out.violations.push(viol(&["C04"], "dispatch-error", &[], format!("dispatch failed: {e}")));
    }
    let sent = shared.sent.lock().unwrap().clone();
    let delivered = shared.delivered.lock().unwrap().clone();
    let closed = shared.closed_at.lock().unwrap().clone();
    let aborted = sched_aborted(&out);
    // exactly once
    let mut dv: Vec<u32> = delivered.iter().map(|d| d.0).collect();
    let mut sv: Vec<u32> = sent.iter().map(|s| s.1).collect();
    let order_dv = dv.clone();
    dv.sort();
    sv.sort();
    if !aborted {
        if dv != sv {
            let stranded: Vec<u32> = sv.iter().filter(|v| !dv.contains(v)).copied().collect();
            let clause = if stranded.is_empty() { "duplicate-or-phantom" } else { "stranded-message" };
            out.violations.push(viol(
                &["C04", "C02"],
                clause,
                &[("variant", variant.to_string())],
                format!("sent {sv:?} but delivered {order_dv:?} at quiescence (loop blocked={blocked:?}, closed={closed:?})"),
            ));
        }
        // per-sender order
        for t in 1..=nthreads {
            let want: Vec<u32> = sent.iter().filter(|s| s.0 == t).map(|s| s.1).collect();
            let got: Vec<u32> = order_dv.iter().filter(|v| (**v / 100) as usize == t).copied().collect();
            if got != want && got.len() == want.len() {
                out.violations.push(viol(&["C04"], "per-sender-order", &[], format!("sender {t} sent {want:?}, delivered {got:?}")));
            }
        }
        // closed
        let stats = handle.verif_stats();
        let slot_occupied = stats.slots.iter().any(|s| s.1);
        if main_keeps {
            if !closed.is_empty() {
                out.violations.push(viol(&["C04"], "closed-with-live-sender", &[], "Closed delivered although a sender is alive".into()));
            }
        } else {
            out.clauses.push("channel-closed");
            if closed.len() != 1 {
                out.violations.push(viol(
                    &["C04"],
                    "closed-count",
                    &[("count", closed.len().to_string())],
                    format!("Closed delivered {} times after every sender was dropped (loop blocked={blocked:?})", closed.len()),
                ));
            } else {
                if delivered.iter().any(|d| d.1 > closed[0]) {
                    out.violations.push(viol(&["C04"], "message-after-closed", &[], "a message was delivered after Closed".into()));
                }
                if slot_occupied {
                    out.violations.push(viol(&["C04", "C06"], "closed-channel-not-removed", &[], "channel reported Closed but still occupies its slot".into()));
                }
            }
        }
    }
    drop(main_tx);
    let mut h = std::collections::hash_map::DefaultHasher::new();
    (order_dv.clone(), closed.len(), dispatches).hash(&mut h);
    out.observation = h.finish();
    out.nontrivial = n > 0 && t_switches(&trace) > 0;
    if verbose {
        for (tid, l) in &trace {
            println!("step t{tid} {l}");
        }
        println!("sent={sv:?} delivered={order_dv:?} closed={} dispatches={dispatches}", closed.len());
    }
    out
}

// ------------------------------------------------------------------------------------------
// C04: sync-mt (synchronous channel with really blocking sends)

/// programs over {S = send (blocking), T = try_send, C = clone, D = drop}
fn sync_programs(max: usize) -> Vec<Vec<u8>> {
    let mut out = vec![];
    fn rec(cur: &mut Vec<u8>, handles: i32, max: usize, out: &mut Vec<Vec<u8>>) {
        if !cur.is_empty() {
            out.push(cur.clone());
        }
        if cur.len() == max {
            return;
        }
        for op in [b'S', b'T', b'C', b'D'] {
            let ok = match op {
                b'C' => handles > 0 && handles < 2,
                _ => handles > 0,
            };
            if ok {
                cur.push(op);
                let h = match op {
                    b'C' => handles + 1,
                    b'D' => handles - 1,
                    _ => handles,
                };
                rec(cur, h, max, out);
                cur.pop();
            }
        }
    }
    rec(&mut vec![], 1, max, &mut out);
    out.retain(|p| p.iter().any(|o| *o == b'S' || *o == b'T'));
    out
}

fn run_sync_mt(tape: &mut Tape, nthreads: usize, maxlen: usize, verbose: bool) -> Outcome {
    use calloop::channel::{sync_channel, Event, SyncSender};
    STAMP.store(0, Ordering::SeqCst);
    sched::start_watchdog();
    let mut out = Outcome::default();
    sched::begin(std::mem::take(tape), nthreads + 1);
    let progs = sync_programs(maxlen);
    let mut chosen: Vec<Vec<u8>> = vec![];
    for _ in 0..nthreads {
        let c = choose_free(progs.len() as u32);
        chosen.push(progs[c as usize].clone());
    }
    let bound = choose_free(3) as usize; // 0 (rendezvous), 1, 2
    // the loop side keeps a sender alive: no Closed, and a stranded message stays stranded
    let main_keeps = choose_free(2) == 1;
    out.decoded.push(format!(
        "sync-programs {:?} bound {bound} main-keeps-sender {main_keeps}",
        chosen.iter().map(|p| String::from_utf8_lossy(p).to_string()).collect::<Vec<_>>()
    ));
    let shared = Arc::new(ChanShared::default());
    let started: Arc<Mutex<Vec<(usize, u32, u64)>>> = Arc::new(Mutex::new(vec![])); // blocking sends begun
    let mut el: EventLoop<'static, u32> = EventLoop::try_new().expect("loop");
    let (tx, rx) = sync_channel::<u32>(bound);
    let sh = shared.clone();
    let token = el
        .handle()
        .insert_source(rx, move |ev, _, n: &mut u32| {
            *n += 1;
            match ev {
                Event::Msg(v) => sh.delivered.lock().unwrap().push((v, stamp())),
                Event::Closed => sh.closed_at.lock().unwrap().push(stamp()),
            }
        })
        .expect("insert");
    let handle = el.handle();
    let mut joins = vec![];
    let total_ops: usize = chosen.iter().map(|p| p.len()).sum();
    for (i, prog) in chosen.iter().enumerate() {
        let tid = i + 1;
        let mut handles: Vec<SyncSender<u32>> = vec![tx.clone()];
        let prog = prog.clone();
        let sh = shared.clone();
        let st = started.clone();
        joins.push(sched::spawn(tid, move || {
            let mut seq = 0u32;
            for op in prog {
                sched::point("op");
                match op {
                    b'S' => {
                        let v = tid as u32 * 100 + seq;
                        seq += 1;
                        st.lock().unwrap().push((tid, v, stamp()));
                        if handles[0].send(v).is_ok() {
                            sh.sent.lock().unwrap().push((tid, v, stamp()));
                        }
                    }
                    b'T' => {
                        let v = tid as u32 * 100 + seq;
                        seq += 1;
                        if handles[0].try_send(v).is_ok() {
                            sh.sent.lock().unwrap().push((tid, v, stamp()));
                        }
                    }
                    b'C' => {
                        let h = handles[0].clone();
                        handles.push(h);
                    }
                    _ => {
                        handles.pop();
                    }
                }
            }
            sched::point("end");
            drop(handles);
        }));
    }
    let mut main_tx = Some(tx);
    if !main_keeps {
        main_tx.take();
    }
    let horizon = 4 * total_ops as u32 + nthreads as u32 + 8;
    let mut n = 0u32;
    let mut dispatches = 0u32;
    let mut err = None;
    loop {
        if sched::is_over() {
            break;
        }
        if dispatches >= horizon {
            out.violations.push(viol(&["C04"], "spinning", &[], format!("{dispatches} dispatches without quiescing")));
            break;
        }
        if let Err(e) = el.dispatch(None, &mut n) {
            err = Some(format!("{e}"));
            break;
        }
        if sched::is_over() {
            break;
        }
        dispatches += 1;
    }
    sched::main_done();
    let (t, trace, blocked, steps, cap) = sched::end();
    *tape = t;
    // release senders that are still parked: the receiver goes away
    handle.remove(token);
    for j in joins {
        let _ = j.join();
    }
    out.transitions = steps;
    out.callbacks = n as u64;
    out.clauses.push("sync-channel-delivery");
    if cap {
        out.violations.push(viol(&["C04"], "step-cap", &[], "scheduler step cap hit".into()));
    }
    if let Some(e) = err {
        out.violations.push(viol(&["C04"], "dispatch-error", &[], format!("dispatch failed: {e}")));
    }
    let sent = shared.sent.lock().unwrap().clone();
    let begun = started.lock().unwrap().clone();
    let delivered = shared.delivered.lock().unwrap().clone();
    let closed = shared.closed_at.lock().unwrap().clone();
    let aborted = sched_aborted(&out);
    let parked = trace.iter().filter(|e| e.1 == "parked").count();
    if parked > 0 {
        out.clauses.push("blocking-send-parked");
    }
    if !aborted {
        // a sender still parked while the loop is blocked: the blocking send never completes
        let stuck: Vec<usize> = blocked.iter().copied().filter(|b| *b != 0).collect();
        if !stuck.is_empty() && blocked.contains(&0) {
            let pend: Vec<u32> = begun.iter().filter(|b| !sent.iter().any(|s| s.1 == b.1)).map(|b| b.1).collect();
            // the one schedule shape in which this is the recorded finding D11: the ping written by
            // the failed try_send was drained by the loop before the sender parked
            let mut drained_before_park = true;
            for &t in &stuck {
                let park = trace.iter().rposition(|e| *e == (t as u8, "parked"));
                let enq = park.and_then(|p| trace[..p].iter().rposition(|e| *e == (t as u8, "chan.try_enqueue")));
                let ok = match (enq, park) {
                    (Some(a), Some(b)) => trace[a..b].iter().any(|e| *e == (0u8, "ping.drain")) && trace[a..b].iter().any(|e| *e == (t as u8, "ping.write")),
                    _ => false,
                };
                drained_before_park &= ok;
            }
            out.violations.push(viol(
                &["C04"],
                "blocking-send-deadlock",
                &[("bound", bound.to_string()), ("full_ping_drained_before_park", drained_before_park.to_string())],
                format!("sender thread(s) {stuck:?} are parked in a blocking send (values {pend:?}) while the loop is blocked waiting for events: nobody will ever wake the other (bound {bound})"),
            ));
        } else {
            let mut dv: Vec<u32> = delivered.iter().map(|d| d.0).collect();
            let order_dv = dv.clone();
            let mut sv: Vec<u32> = sent.iter().map(|s| s.1).collect();
            dv.sort();
            sv.sort();
            if dv != sv {
                let stranded: Vec<u32> = sv.iter().filter(|v| !dv.contains(v)).copied().collect();
                let clause = if stranded.is_empty() { "duplicate-or-phantom" } else { "stranded-message" };
                out.violations.push(viol(&["C04", "C02"], clause, &[("bound", bound.to_string())],
                    format!("sent {sv:?} but delivered {order_dv:?} at quiescence (loop blocked={blocked:?}, closed={closed:?})")));
            }
            for t in 1..=nthreads {
                let want: Vec<u32> = sent.iter().filter(|s| s.0 == t).map(|s| s.1).collect();
                let got: Vec<u32> = order_dv.iter().filter(|v| (**v / 100) as usize == t).copied().collect();
                if got != want && got.len() == want.len() {
                    out.violations.push(viol(&["C04"], "per-sender-order", &[], format!("sender {t} sent {want:?}, delivered {got:?}")));
                }
            }
            if main_keeps {
                if !closed.is_empty() {
                    out.violations.push(viol(&["C04"], "closed-with-live-sender", &[], "Closed delivered although a sender is alive".into()));
                }
            } else {
                out.clauses.push("channel-closed");
                if closed.len() != 1 {
                    out.violations.push(viol(&["C04"], "closed-count", &[("count", closed.len().to_string())],
                        format!("Closed delivered {} times after every sender was dropped (loop blocked={blocked:?})", closed.len())));
                } else if delivered.iter().any(|d| d.1 > closed[0]) {
                    out.violations.push(viol(&["C04"], "message-after-closed", &[], "a message was delivered after Closed".into()));
                }
            }
        }
    }
    drop(main_tx);
    if trace.iter().any(|e| e.1 == "held-back") {
        out.clauses.push("sluggish-sender");
    }
    let mut h = std::collections::hash_map::DefaultHasher::new();
    (delivered.iter().map(|d| d.0).collect::<Vec<_>>(), closed.len(), parked > 0, bound).hash(&mut h);
    out.observation = h.finish();
    out.nontrivial = n > 0 && t_switches(&trace) > 0;
    if verbose {
        for (tid, l) in &trace {
            println!("step t{tid} {l}");
        }
        println!("sent={sent:?} delivered={delivered:?} closed={} dispatches={dispatches} blocked={blocked:?}", closed.len());
    }
    out
}

// ------------------------------------------------------------------------------------------
// C10: exec-mt (executor woken from other threads)

struct FlagFuture {
    flag: Arc<AtomicBool>,
    waker_slot: Arc<Mutex<Option<std::task::Waker>>>,
    polls: Arc<Mutex<Vec<(u64, std::thread::ThreadId)>>>,
    drops: Arc<Mutex<Vec<std::thread::ThreadId>>>,
    id: u32,
    self_wake_once: AtomicBool,
}

impl std::future::Future for FlagFuture {
    type Output = u32;
    fn poll(self: std::pin::Pin<&mut Self>, cx: &mut std::task::Context<'_>) -> std::task::Poll<u32> {
        self.polls.lock().unwrap().push((stamp(), std::thread::current().id()));
        if self.flag.load(Ordering::SeqCst) {
            std::task::Poll::Ready(self.id)
        } else {
            *self.waker_slot.lock().unwrap() = Some(cx.waker().clone());
            if self.self_wake_once.swap(false, Ordering::SeqCst) {
                // a yield_now-style future: wakes itself from inside its own poll
                self.flag.store(true, Ordering::SeqCst);
                cx.waker().wake_by_ref();
            }
            // a point inside the poll, after the flag was found unset and the waker was parked:
            // another thread may set the flag and wake right here, *during* the poll
            sched::point("fut.pending");
            std::task::Poll::Pending
        }
    }
}

impl Drop for FlagFuture {
    fn drop(&mut self) {
        self.drops.lock().unwrap().push(std::thread::current().id());
    }
}

/// waker-thread programs over {F = set flag, W = wake (by ref), X = take waker and wake (consuming)}
fn wake_programs(max: usize) -> Vec<Vec<u8>> {
    let mut out = vec![];
    fn rec(cur: &mut Vec<u8>, max: usize, out: &mut Vec<Vec<u8>>) {
        if !cur.is_empty() {
            out.push(cur.clone());
        }
        if cur.len() == max {
            return;
        }
        for op in [b'F', b'W'] {
            if op == b'F' && cur.contains(&b'F') {
                continue;
            }
            cur.push(op);
            rec(cur, max, out);
            cur.pop();
        }
    }
    rec(&mut vec![], max, &mut out);
    out
}

fn run_exec_mt(tape: &mut Tape, nthreads: usize, maxlen: usize, verbose: bool) -> Outcome {
    use calloop::futures::executor;
    STAMP.store(0, Ordering::SeqCst);
    let mut out = Outcome::default();
    sched::begin(std::mem::take(tape), nthreads + 1);
    let progs = wake_programs(maxlen);
    let mut chosen: Vec<Vec<u8>> = vec![];
    for _ in 0..nthreads {
        let c = choose_free(progs.len() as u32);
        chosen.push(progs[c as usize].clone());
    }
    // variant: 0 plain, 1 batch limit 1 (re-arm path), 2 executor dropped by the loop thread
    // after its first dispatch while wakers may still run
    let variant = choose_free(3);
    sched::set_batch(0, if variant == 1 { 1 } else { 0 });
    out.decoded.push(format!(
        "wake-programs {:?} variant {variant}",
        chosen.iter().map(|p| String::from_utf8_lossy(p).to_string()).collect::<Vec<_>>()
    ));
    let loop_thread = std::thread::current().id();
    let mut el: EventLoop<'static, Vec<u32>> = EventLoop::try_new().expect("loop");
    let (exec, sched_h) = executor::<u32>().expect("executor");
    let token = el
        .handle()
        .insert_source(exec, |v, _, got: &mut Vec<u32>| got.push(v))
        .expect("insert");
    let handle = el.handle();
    // one task per waker thread
    struct Task {
        flag: Arc<AtomicBool>,
        waker: Arc<Mutex<Option<std::task::Waker>>>,
        polls: Arc<Mutex<Vec<(u64, std::thread::ThreadId)>>>,
        drops: Arc<Mutex<Vec<std::thread::ThreadId>>>,
        wakes: Arc<Mutex<Vec<(u64, bool)>>>, // (stamp at begin of wake, flag set before?)
        wake_ends: Arc<Mutex<Vec<u64>>>,
    }
    let mut tasks = vec![];
    for i in 0..nthreads {
        let t = Task {
            flag: Arc::new(AtomicBool::new(false)),
            waker: Arc::new(Mutex::new(None)),
            polls: Arc::new(Mutex::new(vec![])),
            drops: Arc::new(Mutex::new(vec![])),
            wakes: Arc::new(Mutex::new(vec![])),
            wake_ends: Arc::new(Mutex::new(vec![])),
        };
        sched_h
            .schedule(FlagFuture {
                flag: t.flag.clone(),
                waker_slot: t.waker.clone(),
                polls: t.polls.clone(),
                drops: t.drops.clone(),
                id: i as u32 + 1,
                self_wake_once: AtomicBool::new(false),
            })
            .expect("schedule");
        tasks.push(t);
    }
    // first dispatch: every task is polled once and parks its waker (no other thread runs yet)
    let mut got: Vec<u32> = vec![];
    let mut err = None;
    if let Err(e) = el.dispatch(Some(Duration::ZERO), &mut got) {
        err = Some(format!("{e}"));
    }
    let mut joins = vec![];
    let total_ops: usize = chosen.iter().map(|p| p.len()).sum();
    for (i, prog) in chosen.iter().enumerate() {
        let tid = i + 1;
        let prog = prog.clone();
        let flag = tasks[i].flag.clone();
        let waker = tasks[i].waker.lock().unwrap().clone();
        let wakes = tasks[i].wakes.clone();
        let wake_ends = tasks[i].wake_ends.clone();
        joins.push(sched::spawn(tid, move || {
            for op in prog {
                sched::point("op");
                match op {
                    b'F' => flag.store(true, Ordering::SeqCst),
                    _ => {
                        if let Some(w) = waker.as_ref() {
                            wakes.lock().unwrap().push((stamp(), flag.load(Ordering::SeqCst)));
                            w.wake_by_ref();
                            wake_ends.lock().unwrap().push(stamp());
                        }
                    }
                }
            }
            sched::point("end");
            drop(waker);
        }));
    }
    let horizon = 3 * total_ops as u32 + 8;
    let mut dispatches = 0u32;
    let mut exec_dropped = false;
    let mut drop_interval = (0u64, 0u64);
    loop {
        if sched::is_over() || err.is_some() {
            break;
        }
        if dispatches >= horizon {
            out.violations.push(viol(&["C10"], "spinning", &[], format!("{dispatches} dispatches without quiescing")));
            break;
        }
        if variant == 2 && dispatches == 0 {
            // drop the executor on the loop thread while wakers may be running
            sched::point("loop.remove_executor");
            drop_interval.0 = stamp();
            handle.remove(token);
            drop_interval.1 = stamp();
            exec_dropped = true;
        }
        if let Err(e) = el.dispatch(None, &mut got) {
            err = Some(format!("{e}"));
            break;
        }
        if sched::is_over() {
            break;
        }
        dispatches += 1;
    }
    sched::main_done();
    let (t, trace, blocked, steps, cap) = sched::end();
    *tape = t;
    for j in joins {
        let _ = j.join();
    }
    out.transitions = steps;
    out.callbacks = got.len() as u64;
    out.clauses.push("executor-wake");
    if cap {
        out.violations.push(viol(&["C10"], "step-cap", &[], "scheduler step cap hit".into()));
    }
    if let Some(e) = err {
        out.violations.push(viol(&["C10"], "dispatch-error", &[], format!("dispatch failed: {e}")));
    }
    let aborted = sched_aborted(&out);
    let mut obs: Vec<(usize, usize, bool)> = vec![];
    for (i, t) in tasks.iter().enumerate() {
        let polls = t.polls.lock().unwrap().clone();
        let wakes = t.wakes.lock().unwrap().clone();
        let drops = t.drops.lock().unwrap().clone();
        let done = got.iter().filter(|&&v| v == i as u32 + 1).count();
        obs.push((polls.len(), done, drops.len() == 1));
        if polls.iter().any(|p| p.1 != loop_thread) {
            out.violations.push(viol(&["C10"], "polled-off-thread", &[], format!("task {i} was polled on a thread other than the loop thread")));
        }
        if drops.iter().any(|d| *d != loop_thread) {
            out.violations.push(viol(&["C10"], "dropped-off-thread", &[], format!("task {i}'s future was dropped on a thread other than the loop thread")));
        }
        if drops.len() > 1 {
            out.violations.push(viol(&["C10"], "double-drop", &[], format!("task {i}'s future dropped {} times", drops.len())));
        }
        if done > 1 {
            out.violations.push(viol(&["C10"], "result-twice", &[], format!("task {i}'s output delivered {done} times")));
        }
        if aborted {
            continue;
        }
        if !exec_dropped {
            // every wake of a live (unfinished) task is followed by a poll that starts after it
            let finished_at = if done > 0 { polls.last().map(|p| p.0) } else { None };
            for (k, &(w, _)) in wakes.iter().enumerate() {
                if let Some(f) = finished_at {
                    if w > f {
                        continue; // woken after completion: nothing owed
                    }
                }
                if !polls.iter().any(|p| p.0 > w) {
                    out.violations.push(viol(
                        &["C10"],
                        "lost-wake",
                        &[("variant", variant.to_string())],
                        format!("task {i}: wake #{k} (stamp {w}) was never followed by a poll; polls at {:?}; loop blocked={blocked:?}", polls.iter().map(|p| p.0).collect::<Vec<_>>()),
                    ));
                }
            }
            // completion delivered exactly once when the flag was set before a wake
            let woken_ready = wakes.iter().any(|w| w.1);
            if woken_ready && done != 1 {
                out.violations.push(viol(&["C10"], "result-missing", &[("variant", variant.to_string())],
                    format!("task {i} was woken with its flag set but its output was delivered {done} times")));
            }
            if done == 1 && drops.len() != 1 {
                out.violations.push(viol(&["C10"], "completed-not-dropped", &[], format!("task {i} completed but its future was dropped {} times", drops.len())));
            }
        } else {
            out.clauses.push("executor-drop");
            if drops.len() != 1 {
                let wends = t.wake_ends.lock().unwrap().clone();
                // a wake that began before the drop finished and had not returned when it began
                let overlaps = wakes.iter().enumerate().any(|(k, w)| {
                    let end = wends.get(k).copied().unwrap_or(u64::MAX);
                    w.0 < drop_interval.1 && end > drop_interval.0
                });
                out.violations.push(viol(
                    &["C10"],
                    "future-leaked-at-executor-drop",
                    &[("drops", drops.len().to_string()), ("wake_overlaps_drop", overlaps.to_string())],
                    format!("executor was dropped but task {i}'s future was dropped {} times (wakes at {:?})", drops.len(), wakes),
                ));
            }
        }
    }
    if exec_dropped {
        let flag = Arc::new(AtomicBool::new(true));
        let r = sched_h.schedule(FlagFuture {
            flag,
            waker_slot: Arc::new(Mutex::new(None)),
            polls: Arc::new(Mutex::new(vec![])),
            drops: Arc::new(Mutex::new(vec![])),
            id: 99,
            self_wake_once: AtomicBool::new(false),
        });
        if r.is_ok() {
            out.violations.push(viol(&["C10"], "schedule-after-destroy", &[], "schedule() succeeded after the executor was dropped".into()));
        }
    }
    let mut h = std::collections::hash_map::DefaultHasher::new();
    (obs, got.clone(), dispatches).hash(&mut h);
    out.observation = h.finish();
    out.nontrivial = t_switches(&trace) > 0 && tasks.iter().any(|t| t.polls.lock().unwrap().len() > 1);
    if verbose {
        for (tid, l) in &trace {
            println!("step t{tid} {l}");
        }
        println!("got={got:?} dispatches={dispatches}");
    }
    drop(sched_h);
    out
}

// ------------------------------------------------------------------------------------------
// C11: wakeup / run / block_on

/// A source without any registration that opts into the lifecycle hooks; its `before_sleep` is a
/// scheduling point (user code running inside `dispatch` right before the wait).
struct HookPoint;

impl calloop::EventSource for HookPoint {
    type Event = ();
    type Metadata = ();
    type Ret = ();
    type Error = std::io::Error;
    fn process_events<F>(&mut self, _: calloop::Readiness, _: calloop::Token, _: F) -> Result<calloop::PostAction, Self::Error>
    where
        F: FnMut((), &mut ()),
    {
        Ok(calloop::PostAction::Continue)
    }
    fn register(&mut self, _: &mut calloop::Poll, _: &mut calloop::TokenFactory) -> calloop::Result<()> {
        Ok(())
    }
    fn reregister(&mut self, _: &mut calloop::Poll, _: &mut calloop::TokenFactory) -> calloop::Result<()> {
        Ok(())
    }
    fn unregister(&mut self, _: &mut calloop::Poll) -> calloop::Result<()> {
        Ok(())
    }
    const NEEDS_EXTRA_LIFECYCLE_EVENTS: bool = true;
    fn before_sleep(&mut self) -> calloop::Result<Option<(calloop::Readiness, calloop::Token)>> {
        sched::point("before_sleep");
        Ok(None)
    }
    fn before_handle_events(&mut self, _: calloop::EventIterator<'_>) {}
}

fn run_signal(tape: &mut Tape, which: &str, verbose: bool) -> Outcome {
    STAMP.store(0, Ordering::SeqCst);
    let mut out = Outcome::default();
    sched::begin(std::mem::take(tape), 2);
    let mut el: EventLoop<'static, u32> = EventLoop::try_new().expect("loop");
    let signal = el.get_signal();
    let mut err: Option<String> = None;
    let log: Arc<Mutex<Vec<(u64, &'static str)>>> = Arc::new(Mutex::new(vec![]));
    let mut joins = vec![];
    let mut n = 0u32;
    let mut obs: Vec<u64> = vec![];
    // a timer armed an hour ahead sits in the loop: every wait is then bounded by its deadline,
    // which is far beyond the horizon, and must behave exactly like the unbounded wait
    let env = choose_free(3);
    let with_timer = env == 1;
    if env == 2 {
        // user code runs inside dispatch between its first step and the wait (a source with the
        // extra lifecycle hooks): the other thread may act exactly there
        out.decoded.push("a lifecycle source whose before_sleep is a scheduling point is inserted".into());
        el.handle().insert_source(HookPoint, |_, _, _: &mut u32| {}).expect("insert hook source");
    }
    if with_timer {
        out.decoded.push("a timer armed 1 h ahead is inserted".into());
        el.handle()
            .insert_source(calloop::timer::Timer::from_duration(Duration::from_secs(3600)), |_, _, n: &mut u32| {
                *n += 1000;
                calloop::timer::TimeoutAction::Drop
            })
            .expect("insert timer");
    }
    match which {
        // thread B calls wakeup() at any point; the loop's single dispatch(None) must return
        "wakeup" => {
            let variant = choose_free(4); // 0: one wakeup, one wait; 1: two wakeups, one wait; 2: one wakeup, two waits; 3: two wakeups, two waits
            out.decoded.push(format!("wakeup variant {variant}"));
            let lg = log.clone();
            let sig = signal.clone();
            joins.push(sched::spawn(1, move || {
                for _ in 0..(if variant == 1 || variant == 3 { 2 } else { 1 }) {
                    sched::point("op");
                    lg.lock().unwrap().push((stamp(), "wakeup.begin"));
                    sig.wakeup();
                    lg.lock().unwrap().push((stamp(), "wakeup.end"));
                }
            }));
            let mut returned = 0u32;
            let mut spun = false;
            let want = if variant >= 2 { 2 } else { 1 };
            {
                // stamp the moment each wait returns
                let lg = log.clone();
                sched::set_arrival_monitor(Box::new(move |tid, label| {
                    if tid == 0 && label == "wait.exit" {
                        lg.lock().unwrap().push((stamp(), "wait.exit"));
                    }
                }));
            }
            for _ in 0..want {
                if sched::is_over() {
                    break;
                }
                match std::panic::catch_unwind(std::panic::AssertUnwindSafe(|| el.dispatch(None, &mut n))) {
                    Ok(Ok(())) => {}
                    Ok(Err(e)) => {
                        err = Some(format!("{e}"));
                        break;
                    }
                    Err(p) if sched::is_spin_panic(&*p) => {
                        spun = true;
                        break;
                    }
                    Err(p) => std::panic::resume_unwind(p),
                }
                if sched::is_over() {
                    break;
                }
                returned += 1;
                log.lock().unwrap().push((stamp(), "dispatch.returned"));
            }
            sched::main_done();
            let (t, trace, blocked, steps, _cap) = sched::end();
            *tape = t;
            for j in joins.drain(..) {
                let _ = j.join();
            }
            out.transitions = steps;
            out.clauses.push("wakeup");
            let l = log.lock().unwrap().clone();
            let wakeups = l.iter().filter(|e| e.1 == "wakeup.end").count() as u32;
            // each dispatch(None) needs a wakeup; with one wakeup the first dispatch must return.
            // (variant 2 asks for two dispatches with a single wakeup: the second legitimately blocks)
            if spun {
                out.violations.push(viol(
                    &["C11", "C12"],
                    "wait-loop-spinning",
                    &[("variant", variant.to_string()), ("with_timer", with_timer.to_string())],
                    format!("dispatch(None) went back to waiting instead of returning and never came out of its wait loop once nothing could wake it any more ({}); log={l:?}", sched::SPIN_MSG),
                ));
            }
            if returned == 0 && wakeups >= 1 {
                out.violations.push(viol(
                    &["C11"],
                    "lost-wakeup",
                    &[("variant", variant.to_string())],
                    format!("wakeup() returned {wakeups}x but dispatch(None) never returned (loop blocked={blocked:?}); log={l:?}"),
                ));
            }
            if variant == 3 {
                // a wakeup issued when no wait is in progress makes the *next* wait return: if the
                // second wakeup began after the first wait had returned, the second dispatch returns
                let first_exit = l.iter().find(|e| e.1 == "wait.exit").map(|e| e.0);
                let begins: Vec<u64> = l.iter().filter(|e| e.1 == "wakeup.begin").map(|e| e.0).collect();
                let ends: Vec<u64> = l.iter().filter(|e| e.1 == "wakeup.end").map(|e| e.0).collect();
                if let (Some(x), Some(&b2), true) = (first_exit, begins.get(1), ends.len() == 2) {
                    if b2 > x && returned < 2 {
                        out.violations.push(viol(
                            &["C11"],
                            "lost-wakeup",
                            &[("variant", "3".into())],
                            format!("the second wakeup() began (stamp {b2}) after the first wait had returned (stamp {x}) and completed, but the next dispatch(None) never returned; log={l:?}"),
                        ));
                    }
                }
            }
            if variant == 2 && returned == 2 {
                out.violations.push(viol(&["C11", "C12"], "spurious-return", &[], "a single wakeup() made two consecutive dispatch(None) calls return".into()));
            }
            obs.push(returned as u64);
            obs.push(variant as u64);
            out.nontrivial = t_switches(&trace) > 0;
            if verbose {
                for (tid, l) in &trace {
                    println!("step t{tid} {l}");
                }
                println!("returned={returned} wakeups={wakeups}");
            }
        }
        // run(None): B issues stop(); wakeup() after run has begun
        "run" => {
            let variant = choose_free(3); // 0: stop+wakeup, 1: wakeup, stop+wakeup, 2: closure stops after 2 iterations (B only wakes)
            out.decoded.push(format!("run variant {variant}"));
            let lg = log.clone();
            let sig = signal.clone();
            let begun = Arc::new(AtomicBool::new(false));
            let bg = begun.clone();
            joins.push(sched::spawn(1, move || {
                // enabled only after run() has begun
                sched::wait_flag(&bg, "wait_begin");
                if sched::is_over() {
                    return;
                }
                if variant == 1 || variant == 2 {
                    sched::point("op");
                    sig.wakeup();
                    lg.lock().unwrap().push((stamp(), "wakeup.end"));
                }
                if variant == 2 {
                    sched::point("op");
                    sig.wakeup();
                    lg.lock().unwrap().push((stamp(), "wakeup.end"));
                    return;
                }
                sched::point("op");
                lg.lock().unwrap().push((stamp(), "stop.begin"));
                sig.stop();
                lg.lock().unwrap().push((stamp(), "stop.end"));
                sched::point("op");
                sig.wakeup();
                lg.lock().unwrap().push((stamp(), "stopwake.end"));
            }));
            // mark "run has begun" at the hook point inside run()
            {
                let bg = begun.clone();
                sched::set_monitor(Box::new(move |_tid, label| {
                    if label == "run.begin" {
                        bg.store(true, Ordering::SeqCst);
                    }
                }));
            }
            let lg = log.clone();
            let sig2 = signal.clone();
            let mut iters = 0u32;
            let mut spun = false;
            let r = match std::panic::catch_unwind(std::panic::AssertUnwindSafe(|| {
                el.run(None, &mut n, |_| {
                    iters += 1;
                    lg.lock().unwrap().push((stamp(), "iteration"));
                    if variant == 2 && iters == 2 {
                        sig2.stop();
                    }
                    if iters > 12 {
                        // horizon: stop the experiment
                        sig2.stop();
                    }
                })
            })) {
                Ok(r) => r,
                Err(p) if sched::is_spin_panic(&*p) => {
                    spun = true;
                    Ok(())
                }
                Err(p) => std::panic::resume_unwind(p),
            };
            if spun {
                out.violations.push(viol(&["C11", "C12"], "wait-loop-spinning", &[("variant", format!("run{variant}")), ("with_timer", with_timer.to_string())],
                    format!("run(None) never came out of its wait loop once nothing could wake it any more ({})", sched::SPIN_MSG)));
            }
            let returned = !sched::is_over();
            if returned {
                log.lock().unwrap().push((stamp(), "run.returned"));
            }
            if let Err(e) = r {
                err = Some(format!("{e}"));
            }
            sched::main_done();
            let (t, trace, blocked, steps, _cap) = sched::end();
            *tape = t;
            for j in joins.drain(..) {
                let _ = j.join();
            }
            out.transitions = steps;
            out.clauses.push("run-stop");
            let l = log.lock().unwrap().clone();
            let stop_end = l.iter().find(|e| e.1 == "stop.end").map(|e| e.0);
            let stopwake_end = l.iter().find(|e| e.1 == "stopwake.end").map(|e| e.0);
            let ret_at = l.iter().find(|e| e.1 == "run.returned").map(|e| e.0);
            if iters > 12 {
                out.violations.push(viol(&["C11"], "run-spinning", &[], format!("run() kept iterating ({iters} iterations) without any event or wake-up")));
            }
            if variant != 2 {
                if stopwake_end.is_some() && ret_at.is_none() {
                    out.violations.push(viol(
                        &["C11"],
                        "stop-lost",
                        &[("variant", variant.to_string())],
                        format!("stop(); wakeup() completed but run() did not return (loop blocked={blocked:?}); log={l:?}"),
                    ));
                }
                if let (Some(s), Some(r)) = (stop_end, ret_at) {
                    // at most the iteration in progress finishes after the stop+wakeup completed
                    let sw = stopwake_end.unwrap_or(u64::MAX);
                    let after = l.iter().filter(|e| e.1 == "iteration" && e.0 > sw).count();
                    if after > 1 {
                        out.violations.push(viol(&["C11"], "stop-late", &[], format!("{after} iterations ran after stop()+wakeup() had returned (stop at {s}, returned at {r})")));
                    }
                }
                if ret_at.is_some() && l.iter().find(|e| e.1 == "stop.begin").map(|e| e.0 > ret_at.unwrap()).unwrap_or(true) {
                    out.violations.push(viol(&["C11"], "run-returned-without-stop", &[], format!("run() returned Ok before any stop request; log={l:?}")));
                }
            } else {
                // the closure stops after its second iteration: needs two wake-ups to get there
                if ret_at.is_some() && iters < 2 {
                    out.violations.push(viol(&["C11"], "run-returned-without-stop", &[], format!("run() returned after {iters} iterations without a stop request")));
                }
                let wakes = l.iter().filter(|e| e.1 == "wakeup.end").count();
                if wakes == 2 && ret_at.is_none() && iters == 0 {
                    out.violations.push(viol(&["C11"], "lost-wakeup", &[("variant", "run2".into())], format!("two wakeups completed but run() never finished an iteration; log={l:?}")));
                }
            }
            obs.push(iters as u64);
            obs.push(ret_at.is_some() as u64);
            out.nontrivial = t_switches(&trace) > 0;
            if verbose {
                for (tid, l) in &trace {
                    println!("step t{tid} {l}");
                }
                println!("log={l:?}");
            }
        }
        // block_on a future pending on a flag; B sets the flag and wakes, possibly racing stop
        _ => {
            let variant = choose_free(6); // 0: F,W  1: W,F,W  2: F,W racing stop+wakeup  3: stop+wakeup only  4: the future wakes itself inside its first poll  5: stop+wakeup first, then F,W
            out.decoded.push(format!("block_on variant {variant}"));
            let flag = Arc::new(AtomicBool::new(false));
            let waker: Arc<Mutex<Option<std::task::Waker>>> = Arc::new(Mutex::new(None));
            let polls = Arc::new(Mutex::new(vec![]));
            let drops = Arc::new(Mutex::new(vec![]));
            let first_polled = Arc::new(AtomicBool::new(false));
            let fut = FlagFuture {
                flag: flag.clone(),
                waker_slot: waker.clone(),
                polls: polls.clone(),
                drops: drops.clone(),
                id: 7,
                self_wake_once: AtomicBool::new(variant == 4),
            };
            let fut = {
                let fp = first_polled.clone();
                let mut fut = Box::pin(fut);
                std::future::poll_fn(move |cx| {
                    let r = fut.as_mut().poll(cx);
                    fp.store(true, Ordering::SeqCst);
                    r
                })
            };
            let lg = log.clone();
            let sig = signal.clone();
            let wk = waker.clone();
            let fl = flag.clone();
            let polled = first_polled.clone();
            joins.push(sched::spawn(1, move || {
                // wait until the future has been polled once (its waker exists)
                sched::wait_flag(&polled, "wait_first_poll");
                if sched::is_over() {
                    return;
                }
                let do_wake = |lg: &Arc<Mutex<Vec<(u64, &'static str)>>>| {
                    let w = wk.lock().unwrap().clone();
                    if let Some(w) = w {
                        lg.lock().unwrap().push((stamp(), "wake.begin"));
                        w.wake();
                        lg.lock().unwrap().push((stamp(), "wake.end"));
                    }
                };
                match variant {
                    0 => {
                        sched::point("op");
                        fl.store(true, Ordering::SeqCst);
                        lg.lock().unwrap().push((stamp(), "flag"));
                        sched::point("op");
                        do_wake(&lg);
                    }
                    1 => {
                        sched::point("op");
                        do_wake(&lg);
                        sched::point("op");
                        fl.store(true, Ordering::SeqCst);
                        lg.lock().unwrap().push((stamp(), "flag"));
                        sched::point("op");
                        do_wake(&lg);
                    }
                    4 => {}
                    5 => {
                        // the stop request comes first; the future becomes ready and is woken
                        // afterwards: block_on must still return None
                        sched::point("op");
                        lg.lock().unwrap().push((stamp(), "stop.begin"));
                        sig.stop();
                        lg.lock().unwrap().push((stamp(), "stop.end"));
                        sched::point("op");
                        sig.wakeup();
                        lg.lock().unwrap().push((stamp(), "stopwake.end"));
                        sched::point("op");
                        fl.store(true, Ordering::SeqCst);
                        lg.lock().unwrap().push((stamp(), "flag"));
                        sched::point("op");
                        do_wake(&lg);
                    }
                    2 => {
                        sched::point("op");
                        fl.store(true, Ordering::SeqCst);
                        lg.lock().unwrap().push((stamp(), "flag"));
                        sched::point("op");
                        do_wake(&lg);
                        sched::point("op");
                        lg.lock().unwrap().push((stamp(), "stop.begin"));
                        sig.stop();
                        sched::point("op");
                        sig.wakeup();
                        lg.lock().unwrap().push((stamp(), "stopwake.end"));
                    }
                    _ => {
                        sched::point("op");
                        lg.lock().unwrap().push((stamp(), "stop.begin"));
                        sig.stop();
                        sched::point("op");
                        sig.wakeup();
                        lg.lock().unwrap().push((stamp(), "stopwake.end"));
                    }
                }
            }));
            let mut iters = 0u32;
            let sig2 = signal.clone();
            let mut spun = false;
            let r = match std::panic::catch_unwind(std::panic::AssertUnwindSafe(|| {
                el.block_on(fut, &mut n, |_| {
                    iters += 1;
                    if iters > 12 {
                        sig2.stop();
                    }
                })
            })) {
                Ok(r) => r,
                Err(p) if sched::is_spin_panic(&*p) => {
                    spun = true;
                    Ok(None)
                }
                Err(p) => std::panic::resume_unwind(p),
            };
            if spun {
                out.violations.push(viol(&["C11", "C12"], "wait-loop-spinning", &[("variant", format!("block_on{variant}")), ("with_timer", with_timer.to_string())],
                    format!("block_on never came out of its wait loop once nothing could wake it any more ({})", sched::SPIN_MSG)));
            }
            let returned = !sched::is_over();
            if returned {
                log.lock().unwrap().push((stamp(), "block_on.returned"));
            }
            // a second block_on on the same loop (nobody requests a stop in these variants): its
            // future is ready at once and must be polled initially like the first one
            let mut second: Option<Result<Option<u32>, String>> = None;
            if returned && matches!(variant, 0 | 1 | 4) && matches!(r, Ok(Some(_))) {
                let mut it2 = 0u32;
                let sig3 = signal.clone();
                let r2 = el.block_on(async { 9u32 }, &mut n, |_| {
                    it2 += 1;
                    if it2 > 12 {
                        sig3.stop();
                    }
                });
                if !sched::is_over() {
                    second = Some(r2.map_err(|e| format!("{e}")));
                } else {
                    second = Some(Err("never returned".into()));
                }
            }
            sched::main_done();
            let (t, trace, blocked, steps, _cap) = sched::end();
            *tape = t;
            for j in joins.drain(..) {
                let _ = j.join();
            }
            out.transitions = steps;
            out.clauses.push("block-on");
            let l = log.lock().unwrap().clone();
            let p = polls.lock().unwrap().clone();
            let flag_at = l.iter().find(|e| e.1 == "flag").map(|e| e.0);
            let stop_at = l.iter().find(|e| e.1 == "stop.begin").map(|e| e.0);
            let ret_at = l.iter().find(|e| e.1 == "block_on.returned").map(|e| e.0);
            if iters > 12 {
                out.violations.push(viol(&["C11"], "block_on-spinning", &[], format!("block_on kept iterating ({iters})")));
            }
            // "None exactly when stop() was requested first": the stop request had returned before
            // the future could possibly complete (its flag was set later)
            let stop_end = l.iter().find(|e| e.1 == "stop.end").map(|e| e.0);
            if let (Some(se), Some(f), Ok(Some(v)), true) = (stop_end, flag_at, &r, returned) {
                if se < f {
                    out.violations.push(viol(
                        &["C11"],
                        "block_on-some-after-stop",
                        &[("variant", variant.to_string())],
                        format!("stop() had returned (stamp {se}) before the future could complete (flag set at stamp {f}), yet block_on returned Some({v}); log={l:?}"),
                    ));
                }
            }
            match &r {
                Err(e) => err = Some(format!("{e}")),
                Ok(Some(v)) if returned => {
                    // Some only if the future was polled to Ready: a poll after the flag was set
                    // (variant 4 sets its own flag during the first poll: the second poll is the ready one)
                    let ready_poll = if variant == 4 { p.len() >= 2 } else { flag_at.map(|f| p.iter().any(|x| x.0 > f)).unwrap_or(false) };
                    if *v != 7 || !ready_poll {
                        out.violations.push(viol(&["C11"], "block_on-some-without-ready", &[], format!("block_on returned Some({v}) but no poll after the flag was set; log={l:?}")));
                    }
                }
                Ok(None) if returned => {
                    if stop_at.map(|s| s > ret_at.unwrap_or(0)).unwrap_or(true) && iters <= 12 {
                        out.violations.push(viol(&["C11"], "block_on-none-without-stop", &[], format!("block_on returned None but stop() was not requested before; log={l:?}")));
                    }
                }
                _ => {}
            }
            // every completed wake is followed by a poll (unless block_on had already returned / stopped)
            let wake_ends: Vec<u64> = l.iter().filter(|e| e.1 == "wake.end").map(|e| e.0).collect();
            let wake_begins: Vec<u64> = l.iter().filter(|e| e.1 == "wake.begin").map(|e| e.0).collect();
            for (k, &wb) in wake_begins.iter().enumerate() {
                let completed = wake_ends.get(k).is_some();
                if !completed {
                    continue;
                }
                let polled_after = p.iter().any(|x| x.0 > wb);
                let stopped = stop_at.is_some();
                // a wake that completes after block_on has returned owes nothing
                let returned_before = ret_at.map(|r| r < wake_ends[k]).unwrap_or(false);
                if !polled_after && !stopped && !returned_before {
                    out.violations.push(viol(
                        &["C11"],
                        "block_on-lost-wake",
                        &[("variant", variant.to_string())],
                        format!("wake #{k} completed but the future was never polled again and block_on did not return (loop blocked={blocked:?}); log={l:?} polls={:?}", p.iter().map(|x| x.0).collect::<Vec<_>>()),
                    ));
                }
            }
            if ret_at.is_none() && iters <= 12 {
                // not returned at the end of the execution: it must be because nothing asked for it
                let asked = (flag_at.is_some() && !wake_ends.is_empty()) || l.iter().any(|e| e.1 == "stopwake.end") || variant == 4;
                if asked {
                    out.violations.push(viol(
                        &["C11"],
                        "block_on-stuck",
                        &[("variant", variant.to_string())],
                        format!("the future was made ready and woken (or stop+wakeup completed) but block_on never returned (loop blocked={blocked:?}); log={l:?}"),
                    ));
                }
            }
            if let Some(s) = &second {
                out.clauses.push("block-on-again");
                if *s != Ok(Some(9)) {
                    out.violations.push(viol(
                        &["C11"],
                        "block_on-second-call",
                        &[("variant", variant.to_string())],
                        format!("a second block_on on the same loop, with a future that is ready at once, gave {s:?} instead of Some(9) (loop blocked={blocked:?})"),
                    ));
                }
            }
            obs.push(second.is_some() as u64);
            obs.push(iters as u64);
            obs.push(matches!(r, Ok(Some(_))) as u64);
            obs.push(p.len() as u64);
            out.nontrivial = t_switches(&trace) > 0 && p.len() > 1;
            if verbose {
                for (tid, l) in &trace {
                    println!("step t{tid} {l}");
                }
                println!("log={l:?} polls={:?} result={:?}", p.iter().map(|x| x.0).collect::<Vec<_>>(), r.as_ref().ok());
            }
        }
    }
    if let Some(e) = err {
        out.violations.push(viol(&["C11"], "dispatch-error", &[], format!("loop call failed: {e}")));
    }
    if with_timer {
        out.clauses.push("far-timer-silent");
        if n >= 1000 {
            out.violations.push(viol(
                &["C05", "C12", "C11"],
                "timer-early",
                &[("driver", which.to_string())],
                format!("the timer armed one hour ahead fired {} time(s) within an execution that lasts milliseconds: a wake-up of the loop was taken for its deadline", n / 1000),
            ));
        }
    }
    out.callbacks = 1;
    let mut h = std::collections::hash_map::DefaultHasher::new();
    obs.hash(&mut h);
    out.observation = h.finish();
    out
}

// ------------------------------------------------------------------------------------------
// C11: signal-mt — run(None) against k threads with programs over {W = wakeup, S = stop, P = ping}

fn signal_programs(max: usize) -> Vec<Vec<u8>> {
    let mut out = vec![];
    fn rec(cur: &mut Vec<u8>, max: usize, out: &mut Vec<Vec<u8>>) {
        if !cur.is_empty() {
            out.push(cur.clone());
        }
        if cur.len() == max {
            return;
        }
        for op in [b'W', b'S', b'P'] {
            cur.push(op);
            rec(cur, max, out);
            cur.pop();
        }
    }
    rec(&mut vec![], max, &mut out);
    out
}

fn run_signal_mt(tape: &mut Tape, nthreads: usize, maxlen: usize, verbose: bool) -> Outcome {
    STAMP.store(0, Ordering::SeqCst);
    let mut out = Outcome::default();
    sched::begin(std::mem::take(tape), nthreads + 1);
    let progs = signal_programs(maxlen);
    let mut chosen: Vec<Vec<u8>> = vec![];
    for _ in 0..nthreads {
        let c = choose_free(progs.len() as u32);
        chosen.push(progs[c as usize].clone());
    }
    out.decoded.push(format!("signal-programs {:?}", chosen.iter().map(|p| String::from_utf8_lossy(p).to_string()).collect::<Vec<_>>()));
    let mut el: EventLoop<'static, u32> = EventLoop::try_new().expect("loop");
    let signal = el.get_signal();
    let (ping, source) = make_ping().expect("ping");
    let log: Arc<Mutex<Vec<(u64, usize, &'static str)>>> = Arc::new(Mutex::new(vec![]));
    let lg = log.clone();
    el.handle()
        .insert_source(source, move |(), _, n: &mut u32| {
            *n += 1;
            lg.lock().unwrap().push((stamp(), 0, "callback"));
        })
        .expect("insert");
    let begun = Arc::new(AtomicBool::new(false));
    {
        let bg = begun.clone();
        sched::set_monitor(Box::new(move |_tid, label| {
            if label == "run.begin" {
                bg.store(true, Ordering::SeqCst);
            }
        }));
    }
    let mut joins = vec![];
    let total_ops: usize = chosen.iter().map(|p| p.len()).sum();
    for (i, prog) in chosen.iter().enumerate() {
        let tid = i + 1;
        let prog = prog.clone();
        let lg = log.clone();
        let sig = signal.clone();
        let bg = begun.clone();
        let pg = ping.clone();
        joins.push(sched::spawn(tid, move || {
            sched::wait_flag(&bg, "wait_begin");
            if sched::is_over() {
                return;
            }
            for op in prog {
                sched::point("op");
                let name: (&'static str, &'static str) = match op {
                    b'W' => ("W.begin", "W.end"),
                    b'S' => ("S.begin", "S.end"),
                    _ => ("P.begin", "P.end"),
                };
                lg.lock().unwrap().push((stamp(), tid, name.0));
                match op {
                    b'W' => sig.wakeup(),
                    b'S' => sig.stop(),
                    _ => pg.ping(),
                }
                lg.lock().unwrap().push((stamp(), tid, name.1));
            }
        }));
    }
    let lg = log.clone();
    let sig2 = signal.clone();
    let mut iters = 0u32;
    let horizon = total_ops as u32 + 3;
    let mut n = 0u32;
    let r = el.run(None, &mut n, |_| {
        if sched::is_over() {
            // the controlled execution has ended (the loop was blocked for good): leave run()
            sig2.stop();
            return;
        }
        iters += 1;
        lg.lock().unwrap().push((stamp(), 0, "iteration"));
        if iters > horizon {
            sig2.stop();
        }
    });
    let returned = !sched::is_over();
    if returned {
        log.lock().unwrap().push((stamp(), 0, "run.returned"));
    }
    sched::main_done();
    let (t, trace, blocked, steps, _cap) = sched::end();
    *tape = t;
    for j in joins {
        let _ = j.join();
    }
    drop(ping);
    out.transitions = steps;
    out.callbacks = n as u64;
    out.clauses.push("run-stop-mt");
    if let Err(e) = r {
        out.violations.push(viol(&["C11"], "dispatch-error", &[], format!("run failed: {e}")));
    }
    let l = log.lock().unwrap().clone();
    let ret_at = l.iter().find(|e| e.2 == "run.returned").map(|e| e.0);
    if iters > horizon {
        out.violations.push(viol(&["C11", "C12"], "run-spinning", &[], format!("run() iterated {iters} times for {total_ops} operations of other threads")));
    } else {
        // stop then wakeup (in that order, both completed) => run returns
        let stops: Vec<u64> = l.iter().filter(|e| e.2 == "S.end").map(|e| e.0).collect();
        let wake_pairs: Vec<(u64, u64)> = {
            let begins: Vec<(u64, usize)> = l.iter().filter(|e| e.2 == "W.begin" || e.2 == "P.begin").map(|e| (e.0, e.1)).collect();
            begins
                .iter()
                .filter_map(|&(b, tid)| l.iter().find(|e| e.1 == tid && e.0 > b && (e.2 == "W.end" || e.2 == "P.end")).map(|e| (b, e.0)))
                .collect()
        };
        let must_return = stops.iter().any(|s| wake_pairs.iter().any(|(b, _e)| b > s));
        if must_return && ret_at.is_none() {
            out.violations.push(viol(
                &["C11"],
                "stop-lost",
                &[("threads", nthreads.to_string())],
                format!("a stop() completed and a wake-up (wakeup() or a ping) began after it and completed, but run() did not return (loop blocked={blocked:?}); log={l:?}"),
            ));
        }
        if let Some(rt) = ret_at {
            let first_stop_begin = l.iter().filter(|e| e.2 == "S.begin").map(|e| e.0).min();
            if first_stop_begin.map(|s| s > rt).unwrap_or(true) {
                out.violations.push(viol(&["C11"], "run-returned-without-stop", &[], format!("run() returned Ok although no stop() had begun; log={l:?}")));
            }
            // at most the iteration in progress finishes after stop+wake completed
            if let Some(s) = stops.iter().min() {
                let wake_after: Option<u64> = wake_pairs.iter().filter(|(b, _)| b > s).map(|(_, e)| *e).min();
                if let Some(w) = wake_after {
                    let later = l.iter().filter(|e| e.2 == "iteration" && e.0 > w).count();
                    if later > 1 {
                        out.violations.push(viol(&["C11"], "stop-late", &[], format!("{later} iterations completed after stop()+wake-up had both returned; log={l:?}")));
                    }
                }
            }
        }
        // pings: each completed ping is followed by a callback unless run returned first
        for (k, e) in l.iter().enumerate().filter(|(_, e)| e.2 == "P.end") {
            let b = l[..k].iter().rev().find(|x| x.1 == e.1 && x.2 == "P.begin").map(|x| x.0).unwrap_or(0);
            let served = l.iter().any(|x| x.2 == "callback" && x.0 > b);
            if !served && ret_at.is_none() {
                out.violations.push(viol(&["C11", "C03"], "lost-ping", &[], format!("a ping completed (began at {b}) but no callback followed and run() is still waiting; log={l:?}")));
            }
        }
    }
    let mut h = std::collections::hash_map::DefaultHasher::new();
    (iters, ret_at.is_some(), n).hash(&mut h);
    out.observation = h.finish();
    out.nontrivial = t_switches(&trace) > 0;
    if verbose {
        for (tid, lb) in &trace {
            println!("step t{tid} {lb}");
        }
        println!("log={l:?}");
    }
    out
}

// ------------------------------------------------------------------------------------------

pub fn is_driver(name: &str) -> bool {
    matches!(name, "ping-mt" | "chan-mt" | "sync-mt" | "exec-mt" | "wakeup" | "run" | "block_on" | "signal-mt")
}

pub fn run(args: &Args) -> Option<Report> {
    sched::install();
    crate::quiet_panics();
    let quick = args.tier == "quick";
    let nthreads = args.opt_u("threads", 2) as usize;
    let maxlen = args.opt_u("len", if quick { 2 } else { 3 }) as usize;
    let max_dev = args.opt_u("preempt", if quick { 2 } else { 3 }) as u32;
    let name = args.driver.clone();

    let runner = move |tape: &mut Tape, verbose: bool| -> Outcome {
        match name.as_str() {
            "ping-mt" => run_ping_mt(tape, nthreads, maxlen, verbose),
            "chan-mt" => run_chan_mt(tape, nthreads, maxlen, verbose),
            "sync-mt" => run_sync_mt(tape, nthreads, maxlen, verbose),
            "exec-mt" => run_exec_mt(tape, nthreads, maxlen, verbose),
            w @ ("wakeup" | "run" | "block_on") => run_signal(tape, w, verbose),
            "signal-mt" => run_signal_mt(tape, nthreads, maxlen, verbose),
            _ => unreachable!(),
        }
    };

    if let Some(path) = &args.replay {
        let v: serde_json::Value = serde_json::from_str(&std::fs::read_to_string(path).unwrap()).unwrap();
        let t: Vec<u32> = v["tape"].as_array().unwrap().iter().map(|x| x.as_u64().unwrap() as u32).collect();
        let mut tape = Tape::new(t);
        let out = runner(&mut tape, true);
        println!("ops: {:?}", out.decoded);
        for v in &out.violations {
            println!("REPLAY-VIOLATION {}", v.signature());
        }
        if let Some(d) = tape.diverged {
            println!("REPLAY-DIVERGED {d}");
        }
        return None;
    }

    let ecfg = Config {
        max_dev,
        max_depth: 0,
        shard: args.shard,
        shard_depth: args.opt_u("sharddepth", 3) as usize,
        wall_cap_s: args.opt_u("wall", if quick { 120 } else { 600 }) as f64,
        exec_cap: args.opt_u("execs", u64::MAX / 2),
        prune: false,
        n_samples: 3,
        seed: args.seed,
    };
    let rep = explore::explore(&args.driver, &ecfg, |tape: &mut Tape| {
        let mut out = runner(tape, false);
        let choices = tape.choices();
        for v in out.violations.iter_mut() {
            v.tape = choices.clone();
            v.decoded = out.decoded.clone();
        }
        // every complete schedule is a state of the schedule tree
        out.fingerprint = Some(explore::fxhash(&choices));
        out
    });
    Some(rep)
}

#[allow(dead_code)]
fn unused(_: AtomicBool, _: Duration, _: Log) {}
