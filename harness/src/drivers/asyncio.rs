//! Engine S driver for C17: the `Async` adapter — byte-exact I/O for every chunking, tasks are
//! always woken, blocking mode restored.
//!
//! Configuration choices (free): message length / write chunk / read buffer from a grid whose
//! large entries exceed the (minimised) socket buffers, reader flavour (AsyncRead vs
//! `readable()` + non-blocking read), writer flavour (task on a second adapter vs raw peer),
//! fd blocking or non-blocking beforehand, release by drop or `into_inner`.
//! History choices (top-level): schedule reader, schedule writer / next raw write, dispatch.
//! Then a fair completion phase: the peer finishes its writes, the loop keeps dispatching; a task
//! that is still pending when nothing can make progress any more is a lost wake-up.

use std::cell::RefCell;
use std::collections::BTreeMap;
use std::hash::{Hash, Hasher};
use std::io::{Read, Write};
use std::os::fd::AsRawFd;
use std::os::unix::net::UnixStream;
use std::rc::Rc;
use std::time::Duration;

use calloop::futures::{executor, Scheduler};
use calloop::io::Async;
use calloop::{EventLoop, LoopHandle};
use futures::io::{AsyncReadExt, AsyncWriteExt};

use crate::epoll;
use crate::explore::{self, Config, Kind, Outcome, Report, Tape, Violation, TAPE};
use crate::seqhooks;
use crate::Args;

enum Out {
    /// the adapter was polled once under one task and is handed to another task
    Handoff(Async<'static, UnixStream>),
    Read(Vec<u8>, Async<'static, UnixStream>, bool),
    Wrote(Async<'static, UnixStream>, bool),
}

fn viol(clause: &str, feats: &[(&str, String)], msg: String) -> Violation {
    let mut features = BTreeMap::new();
    for (k, v) in feats {
        features.insert(k.to_string(), v.clone());
    }
    Violation {
        props: vec!["C17".into()],
        clause: clause.into(),
        features,
        message: msg,
        tape: vec![],
        decoded: vec![],
    }
}

fn pattern(n: usize) -> Vec<u8> {
    (0..n).map(|i| ((i * 31 + 7) % 251) as u8).collect()
}

fn shrink_buffers(s: &UnixStream) {
    let v: libc::c_int = 1;
    unsafe {
        libc::setsockopt(s.as_raw_fd(), libc::SOL_SOCKET, libc::SO_SNDBUF, &v as *const _ as *const _, 4);
        libc::setsockopt(s.as_raw_fd(), libc::SOL_SOCKET, libc::SO_RCVBUF, &v as *const _ as *const _, 4);
    }
}

fn is_nonblocking(fd: i32) -> bool {
    unsafe { libc::fcntl(fd, libc::F_GETFL) & libc::O_NONBLOCK != 0 }
}

const GRID: &[(usize, usize, usize)] = &[
    (1, 1, 1),
    (12, 1, 5),
    (12, 5, 1),
    (12, 12, 64),
    (5000, 7, 8192),
    (5000, 4096, 5),
    (5000, 5000, 5000),
    (70000, 4096, 8192),
    (70000, 70000, 100000),
    (70000, 65536, 1000),
];

struct St {
    got: Option<Vec<u8>>,
    reader_done: bool,
    writer_done: bool,
    rx_back: Option<Async<'static, UnixStream>>,
    tx_back: Option<Async<'static, UnixStream>>,
    handoff: Option<Async<'static, UnixStream>>,
    io_err: Option<String>,
}

/// Run one execution; if a task got stuck its adapter keeps the whole loop alive (documented
/// cycle), so the file descriptors of that execution are closed by hand afterwards: nothing
/// reachable refers to them any more, and thousands of failing executions must not exhaust
/// the descriptor table of the worker process.
fn run_one(quick: bool, verbose: bool) -> Outcome {
    let first_fd = {
        let probe = epoll::eventfd();
        probe.as_raw_fd()
    };
    let out = run_one_inner(quick, verbose);
    if out.violations.iter().any(|v| v.clause == "task-never-completed") {
        for fd in first_fd..first_fd + 48 {
            unsafe { libc::close(fd) };
        }
    }
    out
}

fn run_one_inner(quick: bool, verbose: bool) -> Outcome {
    seqhooks::reset();
    let mut out = Outcome::default();
    let grid: Vec<(usize, usize, usize)> = if quick { GRID.iter().copied().filter(|g| g.0 <= 5000 || g.1 >= 65536).collect() } else { GRID.to_vec() };
    let (len, wchunk, rbuf) = grid[explore::choose(grid.len() as u32, Kind::Free) as usize];
    // 0 AsyncRead, 1 readable()+read, 2 polled once under a first task, then handed to a second one
    // 3: AsyncRead::read_vectored into two uneven buffers
    let reader_flavour = explore::choose(4, Kind::Free);
    // 0 task (AsyncWrite), 1 raw peer, 2 task using writable()+write; 3 / 4: as 0 / 2, but the task
    // first polls readable() on the same adapter once and abandons that wait (a lost select! branch):
    // the wait that follows is for the other direction
    // 5: task using write_vectored (two uneven slices per call)
    let writer_choice = explore::choose(6, Kind::Free);
    let wprobe = writer_choice == 3 || writer_choice == 4;
    let writer_flavour = match writer_choice {
        3 => 0,
        4 => 2,
        5 => 3,
        x => x,
    };
    let pre_nb = explore::choose(2, Kind::Free) == 1;
    let end_into_inner = explore::choose(2, Kind::Free) == 1;
    out.decoded.push(format!(
        "len={len} wchunk={wchunk} rbuf={rbuf} reader={} writer={} pre_nonblocking={pre_nb} end={}",
        ["AsyncRead", "readable()", "handoff", "read_vectored"][reader_flavour as usize],
        ["task", "raw-peer", "writable()", "abandoned-readable()+task", "abandoned-readable()+writable()", "write_vectored"][writer_choice as usize],
        if end_into_inner { "into_inner" } else { "drop" }
    ));
    let data = pattern(len);

    let mut el: EventLoop<'static, St> = EventLoop::try_new().expect("loop");
    let epfd = el.as_raw_fd();
    let handle: LoopHandle<'static, St> = el.handle();
    let (exec, sched): (_, Scheduler<Out>) = executor().expect("executor");
    let exec_token = handle
        .insert_source(exec, |o, _, st: &mut St| match o {
            Out::Handoff(a) => st.handoff = Some(a),
            Out::Read(v, a, ok) => {
                st.got = Some(v);
                st.reader_done = true;
                st.rx_back = Some(a);
                if !ok {
                    st.io_err = Some("reader io error".into());
                }
            }
            Out::Wrote(a, ok) => {
                st.writer_done = true;
                st.tx_back = Some(a);
                if !ok {
                    st.io_err = Some("writer io error".into());
                }
            }
        })
        .expect("insert executor");
    let (tx_s, rx_s) = UnixStream::pair().expect("socketpair");
    shrink_buffers(&tx_s);
    shrink_buffers(&rx_s);
    if pre_nb {
        tx_s.set_nonblocking(true).unwrap();
        rx_s.set_nonblocking(true).unwrap();
    }
    let (rx_fd, tx_fd) = (rx_s.as_raw_fd(), tx_s.as_raw_fd());
    let mut st = St {
        got: None,
        reader_done: false,
        writer_done: false,
        rx_back: None,
        tx_back: None,
        handoff: None,
        io_err: None,
    };
    let mut rx_ad = Some(handle.adapt_io(rx_s).expect("adapt rx"));
    if !is_nonblocking(rx_fd) {
        out.violations.push(viol("adapter-not-nonblocking", &[], "adapt_io left the fd blocking".into()));
    }
    // writer side: an adapter (task flavours) or a raw non-blocking peer
    let mut tx_ad = None;
    let mut raw_peer = None;
    if writer_flavour == 1 {
        tx_s.set_nonblocking(true).unwrap();
        raw_peer = Some(tx_s);
    } else {
        tx_ad = Some(handle.adapt_io(tx_s).expect("adapt tx"));
    }
    let mut raw_off = 0usize;
    let mut reader_scheduled = false;
    let mut writer_scheduled = false;
    let mut transitions = 0u64;
    let depth = if quick { 4 } else { 5 };

    let sched_probe = |rx: Async<'static, UnixStream>| {
        sched
            .schedule(async move {
                let mut rx = rx;
                {
                    let fut = rx.readable();
                    futures::pin_mut!(fut);
                    let _ = futures::poll!(fut);
                }
                Out::Handoff(rx)
            })
            .expect("schedule probe");
    };
    let sched_reader = |rx: Async<'static, UnixStream>| {
        let total = len;
        let fl = if reader_flavour == 2 { 1 } else { reader_flavour };
        sched
            .schedule(async move {
                let mut rx = rx;
                let mut got = Vec::with_capacity(total);
                let mut buf = vec![0u8; rbuf];
                let mut ok = true;
                while got.len() < total {
                    if fl == 0 {
                        match rx.read(&mut buf).await {
                            Ok(0) => break,
                            Ok(n) => got.extend_from_slice(&buf[..n]),
                            Err(_) => {
                                ok = false;
                                break;
                            }
                        }
                    } else if fl == 3 {
                        let mid = (buf.len() / 3).max(1).min(buf.len());
                        let (a, b) = buf.split_at_mut(mid);
                        let (la, lb) = (a.len(), b.len());
                        let r = {
                            let mut bufs = [std::io::IoSliceMut::new(a), std::io::IoSliceMut::new(b)];
                            rx.read_vectored(&mut bufs).await
                        };
                        match r {
                            Ok(0) => break,
                            Ok(n) => {
                                let _ = (la, lb);
                                got.extend_from_slice(&buf[..n]);
                            }
                            Err(_) => {
                                ok = false;
                                break;
                            }
                        }
                    } else {
                        rx.readable().await;
                        match rx.get_mut().read(&mut buf) {
                            Ok(0) => break,
                            Ok(n) => got.extend_from_slice(&buf[..n]),
                            Err(e) if e.kind() == std::io::ErrorKind::WouldBlock => continue,
                            Err(_) => {
                                ok = false;
                                break;
                            }
                        }
                    }
                }
                Out::Read(got, rx, ok)
            })
            .expect("schedule reader");
    };
    let sched_writer = |tx: Async<'static, UnixStream>, data: Vec<u8>| {
        let fl = writer_flavour;
        sched
            .schedule(async move {
                let mut tx = tx;
                let mut ok = true;
                if wprobe {
                    let fut = tx.readable();
                    futures::pin_mut!(fut);
                    let _ = futures::poll!(fut);
                }
                'outer: for chunk in data.chunks(wchunk) {
                    if fl == 0 {
                        if tx.write_all(chunk).await.is_err() {
                            ok = false;
                            break;
                        }
                    } else if fl == 3 {
                        let mut off = 0;
                        while off < chunk.len() {
                            let mid = (chunk.len() - off) / 3;
                            let (a, b) = chunk[off..].split_at(mid);
                            let bufs = [std::io::IoSlice::new(a), std::io::IoSlice::new(b)];
                            match tx.write_vectored(&bufs).await {
                                Ok(0) | Err(_) => {
                                    ok = false;
                                    break 'outer;
                                }
                                Ok(n) => off += n,
                            }
                        }
                    } else {
                        let mut off = 0;
                        while off < chunk.len() {
                            tx.writable().await;
                            match tx.get_mut().write(&chunk[off..]) {
                                Ok(n) => off += n,
                                Err(e) if e.kind() == std::io::ErrorKind::WouldBlock => continue,
                                Err(_) => {
                                    ok = false;
                                    break 'outer;
                                }
                            }
                        }
                    }
                }
                if ok && fl == 0 && tx.flush().await.is_err() {
                    ok = false;
                }
                Out::Wrote(tx, ok)
            })
            .expect("schedule writer");
    };
    let raw_write = |peer: &mut UnixStream, off: &mut usize| -> bool {
        if *off >= data.len() {
            return false;
        }
        let end = (*off + wchunk).min(data.len());
        match peer.write(&data[*off..end]) {
            Ok(n) => {
                *off += n;
                n > 0
            }
            Err(_) => false,
        }
    };

    // ---- history
    for _ in 0..depth {
        let mut menu: Vec<u8> = vec![b'D'];
        if !reader_scheduled {
            menu.push(b'R');
        }
        if writer_flavour == 1 {
            if raw_off < data.len() {
                menu.push(b'W');
            }
        } else if !writer_scheduled {
            menu.push(b'W');
        }
        let c = explore::choose(menu.len() as u32 + 1, Kind::Top);
        if c == 0 {
            break;
        }
        transitions += 1;
        let op = menu[c as usize - 1];
        out.decoded.push((op as char).to_string());
        match op {
            b'R' => {
                reader_scheduled = true;
                if reader_flavour == 2 {
                    sched_probe(rx_ad.take().unwrap());
                } else {
                    sched_reader(rx_ad.take().unwrap());
                }
            }
            b'W' => {
                if writer_flavour == 1 {
                    raw_write(raw_peer.as_mut().unwrap(), &mut raw_off);
                } else {
                    writer_scheduled = true;
                    sched_writer(tx_ad.take().unwrap(), data.clone());
                }
            }
            _ => {
                if let Err(e) = el.dispatch(Some(Duration::ZERO), &mut st) {
                    out.violations.push(viol("dispatch-error", &[], format!("dispatch failed: {e}")));
                }
                if let Some(a) = st.handoff.take() {
                    sched_reader(a);
                }
            }
        }
    }
    // ---- fair completion phase
    if !reader_scheduled {
        if reader_flavour == 2 {
            sched_probe(rx_ad.take().unwrap());
        } else {
            sched_reader(rx_ad.take().unwrap());
        }
    }
    if writer_flavour != 1 && !writer_scheduled {
        sched_writer(tx_ad.take().unwrap(), data.clone());
    }
    let mut idle_rounds = 0;
    let mut rounds = 0u64;
    let max_rounds = 4 * (len / wchunk.min(rbuf).max(1)) as u64 + 200;
    loop {
        let writer_finished = if writer_flavour == 1 { raw_off >= data.len() } else { st.writer_done };
        if st.reader_done && writer_finished {
            break;
        }
        rounds += 1;
        if rounds > max_rounds {
            break;
        }
        let mut progressed = false;
        if writer_flavour == 1 {
            progressed |= raw_write(raw_peer.as_mut().unwrap(), &mut raw_off);
        }
        let before = (st.reader_done, st.writer_done);
        let _ = seqhooks::take_waits();
        if let Err(e) = el.dispatch(None, &mut st) {
            out.violations.push(viol("dispatch-error", &[], format!("dispatch failed: {e}")));
            break;
        }
        let waits = seqhooks::take_waits();
        if let Some(a) = st.handoff.take() {
            sched_reader(a);
            progressed = true;
        }
        let blocked = waits.first().map(|w| w.would_block_forever).unwrap_or(false);
        progressed |= before != (st.reader_done, st.writer_done) || !blocked;
        if progressed {
            idle_rounds = 0;
        } else {
            idle_rounds += 1;
            if idle_rounds >= 2 {
                break;
            }
        }
        transitions += 1;
    }
    let writer_finished = if writer_flavour == 1 { raw_off >= data.len() } else { st.writer_done };
    out.clauses.push("async-io");
    let cfgfeat = vec![
        ("reader", reader_flavour.to_string()),
        ("writer", writer_choice.to_string()),
    ];
    if !(st.reader_done && writer_finished) {
        let rready = epoll::table(epfd);
        out.violations.push(viol(
            "task-never-completed",
            &cfgfeat,
            format!(
                "reader_done={} writer_done={writer_finished} after {rounds} completion rounds although the peer made all the progress it could (raw bytes written {raw_off}/{len}); the loop would block for ever; epoll={rready:?}",
                st.reader_done
            ),
        ));
    }
    if let Some(e) = &st.io_err {
        out.violations.push(viol("io-error", &cfgfeat, e.clone()));
    }
    if let Some(got) = &st.got {
        if st.reader_done && got != &data {
            let first_bad = got.iter().zip(data.iter()).position(|(a, b)| a != b);
            out.violations.push(viol(
                "bytes-differ",
                &cfgfeat,
                format!("read {} bytes, sent {}; first difference at {:?}", got.len(), data.len(), first_bad),
            ));
        }
    }
    // ---- idle with live adapters: both tasks are done and handed their adapters back, nobody
    // awaits either fd. One more byte arrives for the reader's fd (and the writer's fd is writable
    // as ever): an adapter without a waiter must not keep the poller readable, or every
    // dispatch(None) of the idle loop returns at once (the fd is armed one-shot per waiter).
    if st.reader_done && writer_finished && st.io_err.is_none() {
        out.clauses.push("idle-after-completion");
        let wrote = if let Some(p) = raw_peer.as_mut() {
            p.write(b"!").is_ok()
        } else if let Some(tx) = st.tx_back.as_mut() {
            tx.get_mut().write(b"!").is_ok()
        } else {
            false
        };
        for _ in 0..2 {
            let _ = el.dispatch(Some(Duration::ZERO), &mut st);
        }
        if seqhooks::fd_readable(epfd) {
            let mut features: BTreeMap<String, String> = cfgfeat.iter().map(|(k, v)| (k.to_string(), v.clone())).collect();
            features.insert("extra_byte".into(), wrote.to_string());
            out.violations.push(Violation {
                props: vec!["C12".into(), "C17".into(), "C02".into()],
                clause: "spurious-readiness".into(),
                features,
                message: format!(
                    "both tasks completed and no future awaits the adapters, yet after two dispatches the poller is still readable: an idle loop would spin; epoll={:?}",
                    epoll::table(epfd)
                ),
                tape: vec![],
                decoded: vec![],
            });
        }
    }
    // ---- release: blocking mode restored, fd gone from the poller
    out.clauses.push("release");
    let mut held: Vec<UnixStream> = vec![];
    for (name, ad, fd) in [("rx", st.rx_back.take().or(rx_ad.take()), rx_fd), ("tx", st.tx_back.take().or(tx_ad.take()), tx_fd)] {
        if let Some(ad) = ad {
            if !is_nonblocking(fd) {
                out.violations.push(viol("adapter-not-nonblocking", &[], format!("{name}: fd is blocking while the adapter is alive")));
            }
            if end_into_inner {
                let s = ad.into_inner();
                if is_nonblocking(fd) != pre_nb {
                    out.violations.push(viol("blocking-mode-not-restored", &[("how", "into_inner".into())], format!("{name}: after into_inner O_NONBLOCK={} but it was {pre_nb} before adapt_io", is_nonblocking(fd))));
                }
                held.push(s);
            } else {
                let dupfd = unsafe { libc::dup(fd) };
                drop(ad);
                if is_nonblocking(dupfd) != pre_nb {
                    out.violations.push(viol("blocking-mode-not-restored", &[("how", "drop".into())], format!("{name}: after drop O_NONBLOCK={} but it was {pre_nb} before adapt_io", is_nonblocking(dupfd))));
                }
                unsafe { libc::close(dupfd) };
            }
        }
    }
    let leftover: Vec<_> = epoll::table(epfd).into_iter().filter(|e| e.fd == rx_fd || e.fd == tx_fd).collect();
    if !leftover.is_empty() && end_into_inner {
        out.violations.push(Violation {
            props: vec!["C16".into(), "C17".into()],
            clause: "adapter-fd-still-registered".into(),
            features: BTreeMap::new(),
            message: format!("after releasing the adapters their fds are still in the poller: {leftover:?}"),
            tape: vec![],
            decoded: vec![],
        });
    }
    drop(held);
    drop(raw_peer);
    // A stuck task keeps its adapter and thereby the whole loop alive (the documented cycle
    // loop -> executor -> future -> adapter -> loop). With both peers closed the tasks see
    // EOF / EPIPE and finish, which hands the adapters back; whatever is still stuck after that is
    // leaked (the fd limit is raised at start-up), never torn down from here.
    if !(st.reader_done && writer_finished) {
        for _ in 0..4 {
            let _ = el.dispatch(Some(Duration::ZERO), &mut st);
        }
        st.rx_back.take();
        st.tx_back.take();
    }
    let _ = exec_token;
    let mut h = std::collections::hash_map::DefaultHasher::new();
    (st.reader_done, writer_finished, st.got.as_ref().map(|g| g.len()), rounds).hash(&mut h);
    out.observation = h.finish();
    out.nontrivial = st.reader_done && len > 1;
    out.transitions = transitions;
    out.callbacks = (st.reader_done as u64) + (st.writer_done as u64);
    out.fingerprint = None;
    if verbose {
        println!("reader_done={} writer_finished={writer_finished} rounds={rounds} got_len={:?}", st.reader_done, st.got.as_ref().map(|g| g.len()));
    }
    drop(sched);
    let _ = RefCell::new(0);
    let _ = Rc::new(0);
    out
}

pub fn run(args: &Args) -> Option<Report> {
    crate::seqhooks::install();
    crate::quiet_panics();
    let quick = args.tier == "quick";
    if let Some(path) = &args.replay {
        let v: serde_json::Value = serde_json::from_str(&std::fs::read_to_string(path).unwrap()).unwrap();
        let tape: Vec<u32> = v["tape"].as_array().unwrap().iter().map(|x| x.as_u64().unwrap() as u32).collect();
        TAPE.with(|t| *t.borrow_mut() = Tape::new(tape));
        let out = run_one(quick, true);
        println!("ops: {:?}", out.decoded);
        for v in &out.violations {
            println!("REPLAY-VIOLATION {}", v.signature());
        }
        return None;
    }
    let ecfg = Config {
        max_dev: 0,
        max_depth: 5,
        shard: args.shard,
        shard_depth: 3,
        wall_cap_s: args.opt_u("wall", if quick { 120 } else { 600 }) as f64,
        exec_cap: u64::MAX / 2,
        prune: false,
        n_samples: 3,
        seed: args.seed,
    };
    let rep = explore::explore("async-io", &ecfg, move |tape: &mut Tape| {
        TAPE.with(|t| std::mem::swap(&mut *t.borrow_mut(), tape));
        let mut out = run_one(quick, false);
        TAPE.with(|t| std::mem::swap(&mut *t.borrow_mut(), tape));
        let choices = tape.choices();
        for v in out.violations.iter_mut() {
            v.tape = choices.clone();
            v.decoded = out.decoded.clone();
        }
        out.fingerprint = Some(explore::fxhash(&choices));
        out
    });
    Some(rep)
}
