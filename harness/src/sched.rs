//! Engine T — a CHESS-style controlled scheduler over real OS threads.
//!
//! Exactly one controlled thread runs at a time (baton passing on a mutex/condvar). A thread
//! gives up the baton only at *points*: the yield points compiled into calloop behind the
//! `verif` feature (before every cross-thread visible step), the wait seam of the loop thread,
//! and the harness's own operation boundaries. At every point the scheduler asks the choice
//! tape which enabled thread runs next: keeping the running thread is the default (cost 0),
//! switching away from a runnable thread is a *preemption* (cost 1), switching because the
//! running thread blocked or finished is free.
//!
//! Waiting is visible: the loop thread never blocks in the kernel. At the wait seam with
//! timeout `None` it is marked blocked-on-epoll and is enabled iff the epoll fd is readable
//! (non-consuming poll(2)). No enabled thread = the execution is over ("quiescent" if nothing
//! is outstanding according to the driver's oracle, else a deadlock / lost wake-up).

use std::cell::Cell;
use std::sync::{Arc, Condvar, Mutex, MutexGuard};
use std::time::Duration;

use crate::explore::{Kind, Tape};
use crate::seqhooks::fd_readable;

#[derive(Clone, Debug)]
pub enum Status {
    /// spawned, has not reached its first point yet
    Starting,
    /// waiting at a point for the baton
    Runnable,
    Running,
    /// loop thread at the wait seam with no timeout: enabled iff the fd is readable
    BlockedEpoll(i32),
    /// waiting for a harness condition (an atomic flag set by another thread's step)
    BlockedFlag(Arc<std::sync::atomic::AtomicBool>),
    /// really parked inside a std primitive (a blocking `SyncSender::send`): observed through
    /// procfs by the watchdog; becomes Runnable when it reaches its next point
    BlockedStd,
    Finished,
}

pub struct State {
    pub active: bool,
    pub over: bool,
    pub threads: Vec<Status>,
    pub current: usize,
    pub tape: Tape,
    pub steps: u64,
    pub switches: u64,
    pub trace: Vec<(u8, &'static str)>,
    pub blocked_at_end: Vec<usize>,
    pub max_steps: u64,
    pub step_cap_hit: bool,
    pub batch_channel: usize,
    pub batch_exec: usize,
    /// driver monitor invoked (under the lock) when a thread is granted a labelled step
    pub on_step: Option<Box<dyn FnMut(usize, &'static str) + Send>>,
    /// driver monitor invoked (under the lock) when a thread *arrives* at a labelled point,
    /// i.e. right after the step that precedes the point
    pub on_arrive: Option<Box<dyn FnMut(usize, &'static str) + Send>>,
    /// kernel thread ids of the controlled threads (for the parked-thread probe)
    pub os_tid: Vec<i32>,
    /// the thread was granted a step that may park inside std
    pub may_block: Vec<bool>,
    pub watchdog: bool,
    /// parked threads that are being held back ("sluggish": slow to react to their wake-up)
    pub frozen: Vec<bool>,
    /// offer the choice to hold a parked thread back (costs one deviation)
    pub allow_freeze: bool,
}

pub struct Sched {
    pub m: Mutex<State>,
    pub cv: Condvar,
}

static SCHED: std::sync::OnceLock<Arc<Sched>> = std::sync::OnceLock::new();

thread_local! {
    static TID: Cell<Option<usize>> = const { Cell::new(None) };
}

pub fn sched() -> &'static Arc<Sched> {
    SCHED.get_or_init(|| {
        Arc::new(Sched {
            m: Mutex::new(State {
                active: false,
                over: false,
                threads: vec![],
                current: 0,
                tape: Tape::default(),
                steps: 0,
                switches: 0,
                trace: vec![],
                blocked_at_end: vec![],
                max_steps: 100_000,
                step_cap_hit: false,
                batch_channel: 0,
                batch_exec: 0,
                on_step: None,
                on_arrive: None,
                os_tid: vec![],
                may_block: vec![],
                watchdog: false,
                frozen: vec![],
                allow_freeze: false,
            }),
            cv: Condvar::new(),
        })
    })
}

/// Set while a controlled thread is inside scheduler code (queueing for the scheduler's own lock or
/// waiting on its condition variable also shows as "sleeping in futex" in /proc): such a thread is
/// never "parked inside std", however long the machine takes to schedule it.
static IN_SCHED: [std::sync::atomic::AtomicBool; MAX_T] = [const { std::sync::atomic::AtomicBool::new(false) }; MAX_T];
thread_local! {
    static SCHED_DEPTH: Cell<u32> = const { Cell::new(0) };
}

struct InSched(Option<usize>);

fn enter() -> InSched {
    let me = my_tid().filter(|&t| t < MAX_T);
    if let Some(t) = me {
        SCHED_DEPTH.with(|d| {
            if d.get() == 0 {
                IN_SCHED[t].store(true, std::sync::atomic::Ordering::SeqCst);
            }
            d.set(d.get() + 1);
        });
    }
    InSched(me)
}

impl Drop for InSched {
    fn drop(&mut self) {
        if let Some(t) = self.0 {
            SCHED_DEPTH.with(|d| {
                d.set(d.get().saturating_sub(1));
                if d.get() == 0 {
                    IN_SCHED[t].store(false, std::sync::atomic::Ordering::SeqCst);
                }
            });
        }
    }
}

fn in_sched(i: usize) -> bool {
    i < MAX_T && IN_SCHED[i].load(std::sync::atomic::Ordering::SeqCst)
}

fn lock() -> MutexGuard<'static, State> {
    sched().m.lock().unwrap_or_else(|e| e.into_inner())
}

pub fn my_tid() -> Option<usize> {
    TID.with(|t| t.get())
}

static OVER_WAITS: std::sync::atomic::AtomicU64 = std::sync::atomic::AtomicU64::new(0);
pub const SPIN_MSG: &str = "the wait seam was entered more than 20000 times after the experiment had ended: the loop spins inside its wait";

/// Did this panic payload come from the spin guard of `before_wait`?
pub fn is_spin_panic(p: &(dyn std::any::Any + Send)) -> bool {
    p.downcast_ref::<String>().map(|s| s.contains("wait seam was entered")).unwrap_or(false)
}

/// Start a controlled execution on the calling thread (tid 0) with `n` threads in total.
pub fn begin(tape: Tape, n: usize) {
    OVER_WAITS.store(0, std::sync::atomic::Ordering::SeqCst);
    let mut s = lock();
    s.active = true;
    s.over = false;
    s.threads = vec![Status::Starting; n];
    s.threads[0] = Status::Running;
    s.os_tid = vec![0; n];
    s.os_tid[0] = unsafe { libc::gettid() };
    s.may_block = vec![false; n];
    s.frozen = vec![false; n];
    for i in 0..MAX_T {
        FROZEN[i].store(false, std::sync::atomic::Ordering::SeqCst);
        OS_TIDS[i].store(0, std::sync::atomic::Ordering::SeqCst);
    }
    OS_TIDS[0].store(s.os_tid[0], std::sync::atomic::Ordering::SeqCst);
    s.current = 0;
    s.tape = tape;
    s.steps = 0;
    s.switches = 0;
    s.trace.clear();
    s.blocked_at_end.clear();
    s.step_cap_hit = false;
    s.on_step = None;
    s.on_arrive = None;
    TID.with(|t| t.set(Some(0)));
}

/// End the controlled execution; returns the tape and the trace.
pub fn end() -> (Tape, Vec<(u8, &'static str)>, Vec<usize>, u64, bool) {
    let _in_sched = enter();
    let mut s = lock();
    s.active = false;
    s.over = true;
    s.on_step = None;
    s.on_arrive = None;
    sched().cv.notify_all();
    TID.with(|t| t.set(None));
    (
        std::mem::take(&mut s.tape),
        std::mem::take(&mut s.trace),
        std::mem::take(&mut s.blocked_at_end),
        s.steps,
        s.step_cap_hit,
    )
}

pub fn set_monitor(f: Box<dyn FnMut(usize, &'static str) + Send>) {
    let _in_sched = enter();
    lock().on_step = Some(f);
}

pub fn set_arrival_monitor(f: Box<dyn FnMut(usize, &'static str) + Send>) {
    let _in_sched = enter();
    lock().on_arrive = Some(f);
}

pub fn set_batch(channel: usize, exec: usize) {
    let _in_sched = enter();
    let mut s = lock();
    s.batch_channel = channel;
    s.batch_exec = exec;
}

pub fn is_over() -> bool {
    let _in_sched = enter();
    lock().over
}

fn enabled(s: &State, i: usize) -> bool {
    match s.threads[i] {
        Status::Runnable | Status::Running => true,
        Status::BlockedEpoll(fd) => fd_readable(fd),
        Status::BlockedFlag(ref f) => f.load(std::sync::atomic::Ordering::SeqCst),
        // a held-back thread can be released: that is an enabled (pseudo) step
        Status::BlockedStd => s.frozen[i],
        Status::Starting | Status::Finished => false,
    }
}

/// Decide who runs next. `me` is the thread at the point; `me_enabled` says whether it could go on.
fn pick(s: &mut State, me: usize) -> Option<usize> {
    let me_enabled = enabled(s, me);
    let mut order: Vec<usize> = Vec::new();
    if me_enabled {
        order.push(me);
    }
    for i in 0..s.threads.len() {
        if i != me && enabled(s, i) {
            order.push(i);
        }
    }
    if order.is_empty() {
        return None;
    }
    let kind = if me_enabled { Kind::Dev } else { Kind::Free };
    let c = s.tape.choose(order.len() as u32, kind);
    Some(order[c as usize])
}

const MAX_T: usize = 8;
static FROZEN: [std::sync::atomic::AtomicBool; MAX_T] = [const { std::sync::atomic::AtomicBool::new(false) }; MAX_T];
static IN_HANDLER: [std::sync::atomic::AtomicBool; MAX_T] = [const { std::sync::atomic::AtomicBool::new(false) }; MAX_T];
static OS_TIDS: [std::sync::atomic::AtomicI32; MAX_T] = [const { std::sync::atomic::AtomicI32::new(0) }; MAX_T];

/// SIGUSR2 handler: holds the interrupted thread here for as long as it is marked frozen.
/// Only async-signal-safe operations: gettid, atomics, nanosleep.
extern "C" fn freeze_handler(_sig: libc::c_int) {
    use std::sync::atomic::Ordering::SeqCst;
    let me = unsafe { libc::syscall(libc::SYS_gettid) } as i32;
    for i in 0..MAX_T {
        if OS_TIDS[i].load(SeqCst) == me {
            IN_HANDLER[i].store(true, SeqCst);
            while FROZEN[i].load(SeqCst) {
                let ts = libc::timespec { tv_sec: 0, tv_nsec: 30_000 };
                unsafe { libc::nanosleep(&ts, std::ptr::null_mut()) };
            }
            IN_HANDLER[i].store(false, SeqCst);
            return;
        }
    }
}

fn freeze(s: &mut State, i: usize) {
    use std::sync::atomic::Ordering::SeqCst;
    s.frozen[i] = true;
    FROZEN[i].store(true, SeqCst);
    unsafe { libc::syscall(libc::SYS_tgkill, libc::getpid(), s.os_tid[i], libc::SIGUSR2) };
    // the thread must be inside the handler before anybody can wake it up
    let t0 = std::time::Instant::now();
    while !IN_HANDLER[i].load(SeqCst) && t0.elapsed() < Duration::from_secs(5) {
        std::thread::sleep(Duration::from_micros(20));
    }
    s.trace.push((i as u8, "held-back"));
}

/// Release a held-back thread and wait until it has left the handler.
fn thaw(mut s: MutexGuard<'static, State>, i: usize) -> MutexGuard<'static, State> {
    use std::sync::atomic::Ordering::SeqCst;
    s.frozen[i] = false;
    FROZEN[i].store(false, SeqCst);
    s.trace.push((i as u8, "released"));
    drop(s);
    let t0 = std::time::Instant::now();
    while IN_HANDLER[i].load(SeqCst) && t0.elapsed() < Duration::from_secs(5) {
        std::thread::sleep(Duration::from_micros(20));
    }
    // give it the time to either go on or park again, then settle
    std::thread::sleep(Duration::from_micros(60));
    settle(lock())
}

/// pick() that also performs "release a held-back thread" pseudo-steps until a real thread is chosen.
fn choose_next(mut s: MutexGuard<'static, State>, me: usize) -> (MutexGuard<'static, State>, Option<usize>) {
    loop {
        match pick(&mut s, me) {
            None => return (s, None),
            Some(i) if s.frozen[i] => {
                s = thaw(s, i);
                if s.over {
                    return (s, None);
                }
            }
            Some(i) => return (s, Some(i)),
        }
    }
}

fn finish_execution(s: &mut State) {
    s.over = true;
    for i in 0..s.frozen.len() {
        if s.frozen[i] {
            s.frozen[i] = false;
            FROZEN[i].store(false, std::sync::atomic::Ordering::SeqCst);
        }
    }
    s.blocked_at_end = (0..s.threads.len())
        .filter(|&i| matches!(s.threads[i], Status::BlockedEpoll(_) | Status::BlockedFlag(_) | Status::BlockedStd))
        .collect();
    sched().cv.notify_all();
}

fn parked_in_futex(os_tid: i32) -> bool {
    let st = std::fs::read_to_string(format!("/proc/self/task/{os_tid}/stat")).unwrap_or_default();
    // state is the field after the ")" that closes the command name
    let state = st.rsplit(')').next().and_then(|r| r.split_whitespace().next()).unwrap_or("");
    if state != "S" {
        return false;
    }
    let sc = std::fs::read_to_string(format!("/proc/self/task/{os_tid}/syscall")).unwrap_or_default();
    sc.starts_with("202 ") || sc.starts_with("98 ")
}

/// Before any scheduling decision every thread that was parked inside std must be settled: either
/// still parked (stable over two probes with the scheduler lock released in between, so that a
/// thread merely queueing for the scheduler lock gets through) or arrived at its next point.
fn settle(mut s: MutexGuard<'static, State>) -> MutexGuard<'static, State> {
    if !s.watchdog {
        return s;
    }
    loop {
        let pending: Vec<usize> = (0..s.threads.len()).filter(|&i| matches!(s.threads[i], Status::BlockedStd) && !s.frozen[i]).collect();
        if pending.is_empty() || s.over {
            return s;
        }
        let tids: Vec<i32> = pending.iter().map(|&i| s.os_tid[i]).collect();
        let first: Vec<bool> = pending.iter().zip(&tids).map(|(&i, &t)| !in_sched(i) && parked_in_futex(t) && !in_sched(i)).collect();
        drop(s);
        std::thread::sleep(Duration::from_micros(40));
        let second: Vec<bool> = pending.iter().zip(&tids).map(|(&i, &t)| !in_sched(i) && parked_in_futex(t) && !in_sched(i)).collect();
        s = lock();
        let all_settled = pending.iter().enumerate().all(|(k, &i)| !matches!(s.threads[i], Status::BlockedStd) || (first[k] && second[k]));
        if all_settled {
            return s;
        }
    }
}

/// Start the watchdog that notices when the running thread parks inside a std primitive.
pub fn start_watchdog() {
    {
        let mut s = lock();
        if s.watchdog {
            return;
        }
        s.watchdog = true;
        s.allow_freeze = true;
    }
    unsafe {
        let mut sa: libc::sigaction = std::mem::zeroed();
        sa.sa_sigaction = freeze_handler as usize;
        libc::sigemptyset(&mut sa.sa_mask);
        sa.sa_flags = libc::SA_RESTART;
        libc::sigaction(libc::SIGUSR2, &sa, std::ptr::null_mut());
    }
    std::thread::spawn(|| loop {
        std::thread::sleep(Duration::from_micros(60));
        let (cur, tid) = {
            let s = lock();
            if !s.active || s.over || s.threads.is_empty() {
                continue;
            }
            let cur = s.current;
            if !matches!(s.threads[cur], Status::Running) || !s.may_block[cur] {
                continue;
            }
            (cur, s.os_tid[cur])
        };
        if in_sched(cur) || !parked_in_futex(tid) || in_sched(cur) {
            continue;
        }
        std::thread::sleep(Duration::from_micros(60));
        if in_sched(cur) || !parked_in_futex(tid) || in_sched(cur) {
            continue;
        }
        let mut s = lock();
        if !s.active || s.over || s.current != cur || !matches!(s.threads[cur], Status::Running) || !s.may_block[cur] || in_sched(cur) {
            continue;
        }
        // the running thread is parked inside std: it gives up the baton
        s.threads[cur] = Status::BlockedStd;
        s.trace.push((cur as u8, "parked"));
        s.steps += 1;
        // deviation: the parked thread is slow to react to its wake-up (held back until released)
        if s.allow_freeze && s.tape.choose(2, Kind::Dev) == 1 {
            freeze(&mut s, cur);
        }
        let (s2, choice) = choose_next(s, cur);
        s = s2;
        match choice {
            None => {
                if !s.over {
                    finish_execution(&mut s)
                }
            }
            Some(next) => {
                s.switches += 1;
                s.current = next;
                sched().cv.notify_all();
            }
        }
    });
}

/// Hand the baton according to the tape and wait until it comes back to `me`.
/// Must be called with `s.threads[me]` already set to its waiting status.
fn yield_from(s: MutexGuard<'static, State>, me: usize, label: &'static str) {
    let mut s = settle(s);
    s.steps += 1;
    if s.steps > s.max_steps {
        s.step_cap_hit = true;
        finish_execution(&mut s);
        return;
    }
    let (s2, choice) = choose_next(s, me);
    s = s2;
    match choice {
        None => {
            if !s.over {
                finish_execution(&mut s);
            }
            return;
        }
        Some(next) => {
            if next != me {
                s.switches += 1;
                s.current = next;
                sched().cv.notify_all();
                while s.current != me && !s.over {
                    s = sched().cv.wait(s).unwrap_or_else(|e| e.into_inner());
                }
                if s.over {
                    return;
                }
            }
        }
    }
    s.threads[me] = Status::Running;
    s.may_block[me] = label == "chan.blocking_send";
    s.trace.push((me as u8, label));
    if let Some(mut f) = s.on_step.take() {
        f(me, label);
        s.on_step = Some(f);
    }
}

/// A scheduling point of a controlled thread.
pub fn point(label: &'static str) {
    let _in_sched = enter();
    let Some(me) = my_tid() else { return };
    let mut s = lock();
    if !s.active || s.over {
        return;
    }
    if matches!(s.threads[me], Status::BlockedStd) {
        // we were parked inside std and have been released by another thread's step: we do not
        // hold the baton, so just become runnable and wait for it
        s.threads[me] = Status::Runnable;
        s.may_block[me] = false;
        sched().cv.notify_all();
        while s.current != me && !s.over {
            s = sched().cv.wait(s).unwrap_or_else(|e| e.into_inner());
        }
        if s.over {
            return;
        }
        s.threads[me] = Status::Running;
        s.may_block[me] = label == "chan.blocking_send";
        s.trace.push((me as u8, label));
        if let Some(mut f) = s.on_step.take() {
            f(me, label);
            s.on_step = Some(f);
        }
        return;
    }
    s.threads[me] = Status::Runnable;
    if let Some(mut f) = s.on_arrive.take() {
        f(me, label);
        s.on_arrive = Some(f);
    }
    yield_from(s, me, label);
}

/// Block the calling controlled thread until `flag` is set by some other thread's step.
pub fn wait_flag(flag: &Arc<std::sync::atomic::AtomicBool>, label: &'static str) {
    let _in_sched = enter();
    let Some(me) = my_tid() else { return };
    let mut s = lock();
    if !s.active || s.over {
        return;
    }
    s.threads[me] = Status::BlockedFlag(flag.clone());
    yield_from(s, me, label);
}

/// The wait seam of the loop thread. Returns the timeout the poller is really asked for.
pub fn before_wait(fd: i32, timeout: Option<Duration>) -> Option<Duration> {
    let _in_sched = enter();
    let Some(me) = my_tid() else { return timeout };
    let mut s = lock();
    if !s.active || s.over {
        // The experiment is over and every further wait returns at once so that the loop call in
        // progress can finish. A subject that keeps coming back here is spinning in a wait loop
        // of its own: unwind out of it (the drivers catch this and report it).
        let n = OVER_WAITS.fetch_add(1, std::sync::atomic::Ordering::SeqCst);
        if n > 20_000 {
            drop(s);
            OVER_WAITS.store(0, std::sync::atomic::Ordering::SeqCst);
            panic!("{SPIN_MSG}");
        }
        return Some(Duration::ZERO);
    }
    // An execution lasts milliseconds and the clock is the real one: a wait bounded only by a
    // deadline a minute or more away (a far timer) cannot time out within the horizon of the
    // experiment and is a blocking wait like an unbounded one.
    let far = Duration::from_secs(60);
    match timeout {
        None => {
            s.threads[me] = Status::BlockedEpoll(fd);
            yield_from(s, me, "wait.enter");
        }
        Some(t) if t >= far => {
            s.threads[me] = Status::BlockedEpoll(fd);
            yield_from(s, me, "wait.enter");
        }
        Some(_) => {
            // a bounded wait may always time out: it is just another point
            s.threads[me] = Status::Runnable;
            yield_from(s, me, "wait.poll");
        }
    }
    Some(Duration::ZERO)
}

/// Spawn a controlled thread with the given tid; it runs `f` once it is first scheduled.
pub fn spawn<F: FnOnce() + Send + 'static>(tid: usize, f: F) -> std::thread::JoinHandle<()> {
    let h = std::thread::spawn(move || {
        TID.with(|t| t.set(Some(tid)));
        {
            let _in_sched = enter();
            let mut s = lock();
            s.os_tid[tid] = unsafe { libc::gettid() };
            if tid < MAX_T {
                OS_TIDS[tid].store(s.os_tid[tid], std::sync::atomic::Ordering::SeqCst);
            }
            s.threads[tid] = Status::Runnable;
            sched().cv.notify_all();
            while s.current != tid && !s.over {
                s = sched().cv.wait(s).unwrap_or_else(|e| e.into_inner());
            }
            if !s.over {
                s.threads[tid] = Status::Running;
                s.trace.push((tid as u8, "start"));
            }
        }
        f();
        finish_thread(tid);
    });
    // wait until the new thread is parked at its start point: the enabled set stays deterministic
    let _in_sched = enter();
    let mut s = lock();
    while matches!(s.threads[tid], Status::Starting) {
        s = sched().cv.wait(s).unwrap_or_else(|e| e.into_inner());
    }
    h
}

fn finish_thread(me: usize) {
    let _in_sched = enter();
    let mut s = lock();
    let had_baton = s.current == me && !matches!(s.threads[me], Status::BlockedStd);
    s.threads[me] = Status::Finished;
    if !s.active || s.over {
        sched().cv.notify_all();
        return;
    }
    if !had_baton {
        sched().cv.notify_all();
        return;
    }
    let mut s = settle(s);
    s.steps += 1;
    let (s2, choice) = choose_next(s, me);
    s = s2;
    match choice {
        None => {
            if !s.over {
                finish_execution(&mut s)
            }
        }
        Some(next) => {
            s.switches += 1;
            s.current = next;
            sched().cv.notify_all();
        }
    }
    TID.with(|t| t.set(None));
}

/// The loop thread (tid 0) is done with its own program: let the others finish.
pub fn main_done() {
    let _in_sched = enter();
    let mut s = lock();
    if !s.active || s.over {
        return;
    }
    s.threads[0] = Status::Finished;
    let mut s = settle(s);
    s.steps += 1;
    let (s2, choice) = choose_next(s, 0);
    s = s2;
    match choice {
        None => {
            if !s.over {
                finish_execution(&mut s)
            }
        }
        Some(next) => {
            s.switches += 1;
            s.current = next;
            sched().cv.notify_all();
            // wait for the execution to end
            while !s.over {
                s = sched().cv.wait(s).unwrap_or_else(|e| e.into_inner());
            }
        }
    }
}

pub struct ThreadHooks;

impl calloop::verif::Hooks for ThreadHooks {
    fn before_wait(&self, poller_fd: i32, timeout: Option<Duration>) -> Option<Duration> {
        before_wait(poller_fd, timeout)
    }
    fn point(&self, label: &'static str) {
        point(label)
    }
    fn after_wait(&self) {
        point("wait.exit")
    }
    fn batch_limit(&self, which: &'static str, default: usize) -> usize {
        let s = lock();
        let v = match which {
            "channel" => s.batch_channel,
            "executor" => s.batch_exec,
            _ => 0,
        };
        if v == 0 {
            default
        } else {
            v.min(default)
        }
    }
}

pub fn install() {
    calloop::verif::install(Some(Arc::new(ThreadHooks)));
}
