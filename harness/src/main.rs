//! cvh — calloop verification harness. One binary, many drivers.
//!
//! usage: cvh <driver> [--tier quick|thorough] [--shard i/n] [--out file] [--seed n]
//!        cvh <driver> --replay <tape.json>     (prints the observation log of one tape)

mod drivers;
mod epoll;
mod explore;
mod sched;
mod regworld;
mod seqhooks;
mod tracked;
mod world;

use std::io::Write;

pub struct Args {
    pub driver: String,
    pub tier: String,
    pub shard: (u32, u32),
    pub out: Option<String>,
    pub seed: u64,
    pub replay: Option<String>,
    pub opts: Vec<(String, String)>,
}

impl Args {
    pub fn opt(&self, k: &str) -> Option<&str> {
        self.opts
            .iter()
            .find(|(a, _)| a == k)
            .map(|(_, v)| v.as_str())
    }
    pub fn opt_u(&self, k: &str, default: u64) -> u64 {
        self.opt(k).and_then(|v| v.parse().ok()).unwrap_or(default)
    }
}

fn parse() -> Args {
    let mut a = Args {
        driver: String::new(),
        tier: "quick".into(),
        shard: (0, 1),
        out: None,
        seed: 0,
        replay: None,
        opts: vec![],
    };
    let mut it = std::env::args().skip(1);
    while let Some(x) = it.next() {
        match x.as_str() {
            "--tier" => a.tier = it.next().expect("--tier value"),
            "--shard" => {
                let v = it.next().expect("--shard value");
                let (i, n) = v.split_once('/').expect("--shard i/n");
                a.shard = (i.parse().unwrap(), n.parse().unwrap());
            }
            "--out" => a.out = it.next(),
            "--seed" => a.seed = it.next().and_then(|v| v.parse().ok()).unwrap_or(0),
            "--replay" => a.replay = it.next(),
            s if s.starts_with("--") => {
                let v = it.next().unwrap_or_default();
                a.opts.push((s[2..].to_string(), v));
            }
            s => {
                if a.driver.is_empty() {
                    a.driver = s.to_string()
                } else {
                    eprintln!("unexpected argument {s}");
                    std::process::exit(2);
                }
            }
        }
    }
    a
}

/// Panics inside the subject are observations (caught at the dispatch boundary), so their
/// messages are silenced unless CVH_PANIC is set (debugging the harness itself).
pub fn quiet_panics() {
    if std::env::var_os("CVH_PANIC").is_none() {
        std::panic::set_hook(Box::new(|_| {}));
    }
}

fn raise_fd_limit() {
    unsafe {
        let mut r = libc::rlimit { rlim_cur: 0, rlim_max: 0 };
        if libc::getrlimit(libc::RLIMIT_NOFILE, &mut r) == 0 {
            // with CAP_SYS_RESOURCE the hard limit can be raised as well: a subject change that
            // leaks descriptors in every execution must end in verdicts, not in EMFILE
            let big = libc::rlimit { rlim_cur: 1 << 20, rlim_max: 1 << 20 };
            if libc::setrlimit(libc::RLIMIT_NOFILE, &big) != 0 {
                r.rlim_cur = r.rlim_max;
                libc::setrlimit(libc::RLIMIT_NOFILE, &r);
            }
        }
    }
}

fn main() {
    raise_fd_limit();
    let args = parse();
    if args.driver.is_empty() {
        eprintln!("usage: cvh <driver> [--tier quick|thorough] [--shard i/n] [--out file]");
        eprintln!("drivers: {}", drivers::names().join(" "));
        std::process::exit(2);
    }
    let res = std::panic::catch_unwind(|| drivers::dispatch(&args));
    match res {
        Ok(Some(rep)) => {
            let js = serde_json::to_string(&rep).unwrap();
            match &args.out {
                Some(p) => std::fs::write(p, js).expect("write report"),
                None => {
                    let mut o = std::io::stdout();
                    o.write_all(js.as_bytes()).unwrap();
                    o.write_all(b"\n").unwrap();
                }
            }
            if !rep.machinery_errors.is_empty() {
                eprintln!("machinery errors: {:?}", rep.machinery_errors);
                std::process::exit(2);
            }
            std::process::exit(0);
        }
        Ok(None) => std::process::exit(0),
        Err(_) => {
            eprintln!("harness panicked (machinery failure)");
            std::process::exit(2);
        }
    }
}
