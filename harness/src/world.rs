//! Engine S — sequential "product exploration": a real `EventLoop` with real sources is driven
//! through a history of operations (issued between dispatches and from inside callbacks) chosen
//! by the choice tape, while a boring reference model is updated by every operation as it is
//! issued and used as a *monitor*: every callback is judged legitimate or not against the model
//! at that instant; at the end of each dispatch the model says which callbacks were owed.

use std::cell::RefCell;
use std::collections::{BTreeMap, VecDeque};
use std::hash::{Hash, Hasher};
use std::os::fd::{AsRawFd, OwnedFd};
use std::panic::{catch_unwind, AssertUnwindSafe};
use std::rc::Rc;
use std::time::{Duration, Instant};

use calloop::channel::{self, Channel, Sender};
use calloop::generic::Generic;
use calloop::ping::{make_ping, Ping};
use calloop::timer::{TimeoutAction, Timer};
use calloop::{
    Dispatcher, EventLoop, Interest, LoopHandle, Mode, PostAction, Readiness, RegistrationToken,
};

use crate::epoll;
use crate::explore::{self, Kind, Outcome, Violation};
use crate::seqhooks;
use crate::tracked::{CbGuard, Track, Tracked};

pub const STEP_NS: u64 = 1_000_000_000;
const EFD_MAX: u64 = 0xffff_ffff_ffff_fffe;

#[derive(Clone, Copy, Debug, PartialEq, Eq, Hash)]
pub enum KindSpec {
    Ping,
    Chan,
    /// timer with an absolute deadline on the grid (in steps; negative = already past)
    Timer(i8),
    /// Generic over a harness-owned eventfd
    Fd { r: bool, w: bool, mode: u8 },
    /// synchronous channel with the given bound; the harness only uses try_send
    SyncChan(u8),
    /// StreamSource over a harness stream (items pushed and the end signalled by operations)
    Stream,
    /// futures executor; causes are ready futures scheduled on it
    Exec,
    /// `Async` adapter over one end of a socketpair (no tasks: registration only)
    Async,
    /// executor with one task that owns an `Async` adapter of the same loop and waits on it for ever
    ExecIo,
}

impl KindSpec {
    pub fn name(&self) -> &'static str {
        match self {
            KindSpec::Ping => "Ping",
            KindSpec::Chan => "Chan",
            KindSpec::SyncChan(_) => "SyncChan",
            KindSpec::Stream => "Stream",
            KindSpec::Timer(_) => "Timer",
            KindSpec::Fd { mode: 0, .. } => "FdLevel",
            KindSpec::Fd { mode: 1, .. } => "FdEdge",
            KindSpec::Fd { .. } => "FdOneShot",
            KindSpec::Exec => "Exec",
            KindSpec::Async => "Async",
            KindSpec::ExecIo => "ExecIo",
        }
    }
}

pub fn mode_of(m: u8) -> Mode {
    match m {
        0 => Mode::Level,
        1 => Mode::Edge,
        _ => Mode::OneShot,
    }
}

#[derive(Clone, Copy, Debug, PartialEq, Eq, Hash)]
pub enum Op {
    Dispatch,
    /// dispatch with a long timeout: the virtual clock jumps to the next deadline
    DispatchWait,
    /// dispatch(half a step)
    DispatchShort,
    /// dispatch(None)
    DispatchNone,
    Advance,
    Insert(KindSpec),
    Remove(usize),
    Disable(usize),
    Enable(usize),
    Update(usize),
    /// ping / send / make readable
    Cause(usize),
    /// drop a ping handle / drop the sender / drain the fd from outside
    Cause2(usize),
    /// fd only: fill the counter (not writable any more)
    Fill(usize),
    /// use a dead token: 0 enable, 1 disable, 2 update, 3 remove
    Stale(usize, u8),
    /// timer: set_deadline(grid) followed by update()
    SetDeadline(usize, i8),
    /// callback return deviations
    RetRemove,
    RetDisable,
    RetReregister,
    /// timer callback: reschedule one step after now (ToInstant) / ToDuration(step)
    RetToInstant,
    RetToDuration,
    /// timer callback: ToDuration(Duration::MAX) (unrepresentable: the timer is dropped)
    RetToDurationMax,
    /// fd callback: do not drain
    NoDrain,
    /// remove the running source and insert a new one in the same callback (slot reuse)
    RemoveSelfInsert(KindSpec),
    /// clone the ping handle / the sender
    CloneHandle(usize),
    /// fd: change interest/mode of the Generic, then update()
    Reconf(usize, bool, bool, u8),
    /// fd registered through a Dispatcher: remove, into_source_inner, Generic::unwrap
    Unwrap(usize),
    /// insert a new Generic over the fd released by Unwrap / into_inner of a dead actor
    ReinsertFd(usize),
    /// adapt the stream released by into_inner again
    Readapt(usize),
    /// insert an idle callback (which itself may act when it runs)
    InsertIdle,
    /// adapt_io on the fd of a live fd source: must fail (already registered) and change nothing
    AdaptDup(usize),
    /// adapt_io over a descriptor number that is not open (EBADF at the first step)
    AdaptBad,
    /// insert a second Generic over the fd of a live fd source: must fail and change nothing
    InsertDup(usize),
    /// a removed fd source the harness still holds (Dispatcher): release and drop it now
    Release(usize),
    /// insert a new Generic over the fd of a removed-but-still-held fd source
    InsertSameFd(usize),
    /// executor: schedule a future that stays pending until its gate is opened
    SchedulePending(usize),
    /// executor: open the gate of the k-th pending task and wake it
    CompleteTask(usize, u8),
}

#[derive(Clone, Debug)]
pub struct Cfg {
    pub name: &'static str,
    pub initial: Vec<KindSpec>,
    pub insertable: Vec<KindSpec>,
    pub max_actors: usize,
    pub depth: u32,
    pub max_cb_ops: u32,
    pub top_remove: bool,
    pub top_disable: bool,
    pub top_update: bool,
    pub top_cause2: bool,
    pub top_fill: bool,
    pub top_stale: bool,
    pub top_advance: bool,
    pub top_dispatch_wait: bool,
    pub top_dispatch_short: bool,
    pub top_dispatch_none: bool,
    pub check_wait: bool,
    pub cb_ret_max: bool,
    pub top_set_deadline: Vec<i8>,
    pub top_clone: bool,
    pub top_release: bool,
    pub cb_idle: bool,
    /// duplicate-fd faults (adapt_io / insert over an fd that is already registered)
    pub top_dup: bool,
    /// removed Dispatcher-held fd sources are released by an explicit operation, not at once
    pub defer_release: bool,
    pub exec_pending: bool,
    /// gated tasks scheduled on every executor of the initial population
    pub exec_initial_pending: u8,
    /// every violation found by this driver also counts against this property (C08: "has the
    /// effect it would have outside a dispatch" is judged by all the other monitors)
    pub tag_all: Option<&'static str>,
    pub end_order_choice: bool,
    pub update_disabled: bool,
    pub cb_remove: bool,
    pub cb_disable: bool,
    pub cb_enable: bool,
    pub cb_update: bool,
    pub cb_cause: bool,
    pub cb_cause2: bool,
    pub cb_insert: bool,
    pub cb_ret: bool,
    pub cb_remove_self_insert: bool,
    pub cb_set_deadline: Vec<i8>,
    pub cb_nodrain: bool,
    /// fd re-configurations offered by `Reconf` (interest r, w, mode)
    pub reconf: Vec<(bool, bool, u8)>,
    /// alternative initial populations (chosen by a free choice when more than one)
    pub initial_sets: Vec<Vec<KindSpec>>,
    pub check_epoll: bool,
    pub check_release: bool,
    pub prune: bool,
    pub final_dispatches: u32,
}

impl Cfg {
    pub fn base(name: &'static str) -> Cfg {
        Cfg {
            name,
            initial: vec![],
            insertable: vec![],
            max_actors: 3,
            depth: 5,
            max_cb_ops: 1,
            top_remove: true,
            top_disable: true,
            top_update: true,
            top_cause2: true,
            top_fill: false,
            top_stale: false,
            top_advance: false,
            top_dispatch_wait: false,
            top_dispatch_short: false,
            top_dispatch_none: false,
            check_wait: false,
            cb_ret_max: false,
            top_set_deadline: vec![],
            top_clone: false,
            top_release: false,
            cb_idle: false,
            top_dup: false,
            defer_release: false,
            exec_pending: false,
            exec_initial_pending: 0,
            tag_all: None,
            end_order_choice: false,
            update_disabled: false,
            cb_remove: true,
            cb_disable: true,
            cb_enable: true,
            cb_update: true,
            cb_cause: true,
            cb_cause2: false,
            cb_insert: false,
            cb_ret: true,
            cb_remove_self_insert: false,
            cb_set_deadline: vec![],
            cb_nodrain: false,
            reconf: vec![],
            initial_sets: vec![],
            check_epoll: false,
            check_release: true,
            prune: false,
            final_dispatches: 0,
        }
    }
}

/// Reference model of one actor.
#[derive(Clone, Debug, Hash)]
pub struct MA {
    pub spec: KindSpec,
    pub alive: bool,
    pub enabled: bool,
    /// pe_seq during which the actor removed / disabled itself (latitude for the rest of that call)
    pub lat_pe: Option<u32>,
    // ping
    pub ping: bool,
    pub handles: u8,
    /// close written when pe_reg_seq was this value (consumed by a later process_events that
    /// starts while the source is registered)
    pub close_at: Option<u32>,
    // channel
    pub q: VecDeque<u8>,
    pub senders: u8,
    pub next_msg: u8,
    pub closed_delivered: bool,
    /// executor: tasks in the order their runnables sit in the incoming queue: (value, gate?)
    pub runq: VecDeque<u8>,
    /// executor: per task value: (is gated, gate open, has been polled while pending)
    pub tasks: Vec<(u8, bool, bool, bool)>,
    pub exec_pe_seen: u32,
    /// channel: its eventfd was written when pe_reg_seq was this value (drained by a later
    /// registered process_events)
    pub sig_at: Option<u32>,
    // timer
    pub deadline: Option<i64>,
    pub armed: bool,
    /// an expired arming was popped into the current batch and then re-registered (D9 family)
    pub rearmed_in_batch: bool,
    // fd
    pub fdc: u8,
    pub os_armed: bool,
    pub edge_pending: bool,
    // dispatch scoped
    pub owed: bool,
    pub called: bool,
    pub disturbed: bool,
    pub pe_at_start: u32,
    /// fd: (interest r, interest w, counter state) when the dispatch started waiting
    pub fd_at_start: (bool, bool, u8),
    /// fd: an event collected under the previous registration is still in the current batch
    pub stale_in_batch: bool,
    /// this (disabled) fd source's descriptor has been taken over by another inserted source: the
    /// model no longer follows the fd through this actor; it can only be removed, or enabled in
    /// vain while the other one is there
    pub shadowed: bool,
    // causal features
    pub ever_upd_while_disabled: bool,
    pub upd_while_disabled: bool,
    /// process_events calls seen when the source was removed (the loop must never call it again)
    pub pe_at_removal: Option<u32>,
    pub removed_by: u8, // 0 not removed, 1 external, 2 self-callback, 3 other-callback, 4 post-action/implicit
}

pub struct Rt {
    pub token: Option<RegistrationToken>,
    pub track: Rc<Track>,
    pub pings: Vec<Ping>,
    pub senders: Vec<Sender<u8>>,
    pub sync_senders: Vec<calloop::channel::SyncSender<u8>>,
    pub stream: Option<Rc<StreamSh>>,
    pub efd: Option<Rc<OwnedFd>>,
    pub timer: Option<Dispatcher<'static, Tracked<Timer>, Ctx>>,
    pub fdd: Option<Dispatcher<'static, Tracked<Generic<FdRef>>, Ctx>>,
    pub sched: Option<calloop::futures::Scheduler<u8>>,
    pub adapter: Option<calloop::io::Async<'static, std::os::unix::net::UnixStream>>,
    pub peer: Option<std::os::unix::net::UnixStream>,
    pub released: Option<std::os::unix::net::UnixStream>,
    pub released_efd: Option<Rc<OwnedFd>>,
    pub async_key: Option<u64>,
    pub async_fd: Option<i32>,
    pub destroyed_checked: bool,
    /// executor: gates of pending tasks: (value, open flag, waker slot)
    pub gates: Vec<(u8, Rc<std::cell::Cell<bool>>, Rc<RefCell<Option<std::task::Waker>>>)>,
}

pub enum Payload {
    Exec(u8),
    Ping,
    Msg(u8),
    Closed,
    Timer(Instant),
    Fd(Readiness),
}

#[derive(Default)]
pub struct CbRet {
    pub post: Option<PostAction>,
    pub timeout: Option<TimeoutAction>,
}

pub struct Ctx {
    pub h: LoopHandle<'static, Ctx>,
    pub cfg: Rc<Cfg>,
    pub m: Vec<MA>,
    pub rt: Vec<Rt>,
    pub epfd: i32,
    pub in_dispatch: bool,
    pub cur: Vec<usize>,
    pub depth_used: u32,
    pub violations: Vec<Violation>,
    pub decoded: Vec<String>,
    pub obs: std::collections::hash_map::DefaultHasher,
    pub transitions: u64,
    pub callbacks: u64,
    pub deviated: bool,
    pub clauses: Vec<&'static str>,
    pub verbose: Option<Vec<String>>,
    pub now_at_poll: u64,
    pub masks: Rc<epoll::Masks>,
    pub poisoned: bool,
    /// the top-level operation performed last (None for a dispatch)
    pub last_top: Option<Op>,
    /// idles inserted by callbacks: (ran count, inserted in dispatch number)
    pub idles: Vec<(u32, u32)>,
    /// end of the execution: monitors are off while reference cycles are being broken
    pub teardown: bool,
    /// the running callback has asked for a disable / update of its own source (deferred by the loop)
    pub cb_self_req: bool,
    pub bad_adapt_done: bool,
    /// a registration was made to fail (duplicate fd): from now on a damaged kernel table is
    /// also a C15 matter ("a failing call leaves every other source intact")
    pub dup_fault_seen: bool,
    pub dispatch_no: u32,
    pub pending_efd: Option<Rc<OwnedFd>>,
    pub pending_stream: Option<std::os::unix::net::UnixStream>,
    pub ever_rearmed_in_batch: bool,
    /// largest timer deadline fired so far in the current dispatch
    pub last_fired_deadline: Option<i64>,
    pub dispatch_timeout: Option<Duration>,
    pub now_at_dispatch: u64,
}

fn ns_to_instant(ns: i64) -> Instant {
    if ns >= 0 {
        seqhooks::base() + Duration::from_nanos(ns as u64)
    } else {
        seqhooks::base() - Duration::from_nanos((-ns) as u64)
    }
}

fn instant_to_ns(i: Instant) -> i64 {
    let b = seqhooks::base();
    if i >= b {
        (i - b).as_nanos() as i64
    } else {
        -((b - i).as_nanos() as i64)
    }
}

impl Ctx {
    fn clause(&mut self, c: &'static str) {
        if !self.clauses.contains(&c) {
            self.clauses.push(c);
        }
    }

    pub fn violate(&mut self, props: &[&str], clause: &str, feats: &[(&str, String)], msg: String) {
        let mut features = BTreeMap::new();
        for (k, v) in feats {
            features.insert(k.to_string(), v.clone());
        }
        if let Some(v) = self.verbose.as_mut() {
            v.push(format!("!! VIOLATION {clause}: {msg}"));
        }
        self.violations.push(Violation {
            props: props.iter().map(|s| s.to_string()).collect(),
            clause: clause.to_string(),
            features,
            message: msg,
            tape: vec![],
            decoded: vec![],
        });
    }

    /// observable behaviour (callbacks, results): feeds the distinct-outcome count
    fn log(&mut self, s: String) {
        s.hash(&mut self.obs);
        if let Some(v) = self.verbose.as_mut() {
            v.push(s.clone());
        }
    }

    /// harness-side narration: only shown in verbose replays
    fn note(&mut self, s: String) {
        if let Some(v) = self.verbose.as_mut() {
            v.push(s);
        }
    }

    fn cur_actor(&self) -> Option<usize> {
        self.cur.last().copied()
    }

    // ------------------------------------------------------------------ insertion

    pub fn insert(&mut self, spec: KindSpec) {
        let id = self.m.len();
        let track = Track::new();
        let mut ma = MA {
            spec,
            alive: true,
            enabled: true,
            lat_pe: None,
            ping: false,
            handles: 0,
            close_at: None,
            q: VecDeque::new(),
            senders: 0,
            next_msg: (id as u8) * 16,
            closed_delivered: false,
            runq: VecDeque::new(),
            tasks: vec![],
            exec_pe_seen: 0,
            sig_at: None,
            deadline: None,
            armed: false,
            rearmed_in_batch: false,
            fdc: 0,
            os_armed: false,
            edge_pending: false,
            owed: false,
            called: false,
            disturbed: false,
            pe_at_start: 0,
            fd_at_start: (false, false, 0),
            stale_in_batch: false,
            shadowed: false,
            ever_upd_while_disabled: false,
            upd_while_disabled: false,
            pe_at_removal: None,
            removed_by: 0,
        };
        let mut rt = Rt {
            token: None,
            track: track.clone(),
            pings: vec![],
            senders: vec![],
            sync_senders: vec![],
            stream: None,
            efd: None,
            timer: None,
            fdd: None,
            sched: None,
            adapter: None,
            peer: None,
            released: None,
            released_efd: None,
            async_key: None,
            async_fd: None,
            destroyed_checked: false,
            gates: vec![],
        };
        let guard = CbGuard(track.clone());
        let res: Result<RegistrationToken, String> = match spec {
            KindSpec::Ping => {
                let (ping, src) = make_ping().expect("make_ping");
                rt.pings.push(ping);
                ma.handles = 1;
                self.h
                    .insert_source(Tracked::new(src, track.clone()), move |(), _, ctx: &mut Ctx| {
                        let _g = &guard;
                        ctx.on_cb(id, Payload::Ping);
                    })
                    .map_err(|e| format!("{e:?}"))
            }
            KindSpec::Chan => {
                let (tx, rx): (Sender<u8>, Channel<u8>) = channel::channel();
                rt.senders.push(tx);
                ma.senders = 1;
                self.h
                    .insert_source(Tracked::new(rx, track.clone()), move |ev, _, ctx: &mut Ctx| {
                        let _g = &guard;
                        match ev {
                            channel::Event::Msg(v) => ctx.on_cb(id, Payload::Msg(v)),
                            channel::Event::Closed => ctx.on_cb(id, Payload::Closed),
                        };
                    })
                    .map_err(|e| format!("{e:?}"))
            }
            KindSpec::Stream => {
                let sh = Rc::new(StreamSh::default());
                rt.stream = Some(sh.clone());
                ma.senders = 1;
                // StreamSource::new pings itself so that the stream is polled once
                ma.sig_at = Some(0);
                let src = calloop::stream::StreamSource::new(HStream(sh)).expect("stream source");
                self.h
                    .insert_source(Tracked::new(src, track.clone()), move |ev: Option<u8>, _, ctx: &mut Ctx| {
                        let _g = &guard;
                        match ev {
                            Some(v) => ctx.on_cb(id, Payload::Msg(v)),
                            None => ctx.on_cb(id, Payload::Closed),
                        };
                    })
                    .map_err(|e| format!("{e:?}"))
            }
            KindSpec::SyncChan(bound) => {
                let (tx, rx) = channel::sync_channel::<u8>(bound as usize);
                rt.sync_senders.push(tx);
                ma.senders = 1;
                self.h
                    .insert_source(Tracked::new(rx, track.clone()), move |ev, _, ctx: &mut Ctx| {
                        let _g = &guard;
                        match ev {
                            channel::Event::Msg(v) => ctx.on_cb(id, Payload::Msg(v)),
                            channel::Event::Closed => ctx.on_cb(id, Payload::Closed),
                        };
                    })
                    .map_err(|e| format!("{e:?}"))
            }
            KindSpec::Timer(g) => {
                let dl = g as i64 * STEP_NS as i64;
                let timer = if g == i8::MAX {
                    // unrepresentably far: never armed, never fires
                    Timer::from_duration(Duration::MAX)
                } else {
                    ma.deadline = Some(dl);
                    ma.armed = true;
                    Timer::from_deadline(ns_to_instant(dl))
                };
                let disp = Dispatcher::new(
                    Tracked::new(timer, track.clone()),
                    move |ev: Instant, _: &mut (), ctx: &mut Ctx| {
                        let _g = &guard;
                        let r = ctx.on_cb(id, Payload::Timer(ev));
                        r.timeout.unwrap_or(TimeoutAction::Drop)
                    },
                );
                let r = self.h.register_dispatcher(disp.clone()).map_err(|e| format!("{e:?}"));
                rt.timer = Some(disp);
                r
            }
            KindSpec::Exec => {
                let (exec, sched) = calloop::futures::executor::<u8>().expect("executor");
                rt.sched = Some(sched);
                self.h
                    .insert_source(Tracked::new(exec, track.clone()), move |v, _, ctx: &mut Ctx| {
                        let _g = &guard;
                        ctx.on_cb(id, Payload::Exec(v));
                    })
                    .map_err(|e| format!("{e:?}"))
            }
            KindSpec::ExecIo => {
                let (exec, sched) = calloop::futures::executor::<u8>().expect("executor");
                let (a, b) = std::os::unix::net::UnixStream::pair().expect("socketpair");
                rt.peer = Some(b);
                rt.async_fd = Some(a.as_raw_fd());
                let r = self
                    .h
                    .insert_source(Tracked::new(exec, track.clone()), move |v, _, ctx: &mut Ctx| {
                        let _g = &guard;
                        ctx.on_cb(id, Payload::Exec(v));
                    })
                    .map_err(|e| format!("{e:?}"));
                match self.h.adapt_io(a) {
                    Ok(mut ad) => {
                        let _ = sched.schedule(async move {
                            ad.readable().await;
                            0u8
                        });
                        ma.sig_at = Some(0);
                    }
                    Err(e) => self.violate(&["C08", "C15"], "insert-failed", &[("kind", "Async".into())], format!("adapt_io failed: {e:?}")),
                }
                rt.sched = Some(sched);
                r
            }
            KindSpec::Async => {
                drop(guard);
                let (a, b) = match self.pending_stream.take() {
                    Some(s) => (s, None),
                    None => {
                        let (a, b) = std::os::unix::net::UnixStream::pair().expect("socketpair");
                        (a, Some(b))
                    }
                };
                rt.peer = b;
                let fd = a.as_raw_fd();
                rt.async_fd = Some(fd);
                let before: Vec<usize> = self.h.verif_stats().slots.iter().filter(|s| s.1).map(|s| s.0).collect();
                match self.h.adapt_io(a) {
                    Ok(ad) => {
                        rt.adapter = Some(ad);
                        let after = self.h.verif_stats();
                        let newk: Vec<usize> = after.slots.iter().filter(|s| s.1 && !before.contains(&s.0)).map(|s| s.0).collect();
                        rt.async_key = newk.first().map(|k| *k as u64);
                        let nb = unsafe { libc::fcntl(fd, libc::F_GETFL) } & libc::O_NONBLOCK != 0;
                        if !nb {
                            self.violate(&["C17"], "adapter-not-nonblocking", &[], "adapt_io left the fd in blocking mode".into());
                        }
                        ma.alive = true;
                        self.m.push(ma);
                        self.rt.push(rt);
                        return;
                    }
                    Err(e) => Err(format!("{e:?}")),
                }
            }
            KindSpec::Fd { r, w, mode } => {
                let efd = match self.pending_efd.take() {
                    Some(e) => e,
                    None => Rc::new(epoll::eventfd()),
                };
                rt.efd = Some(efd.clone());
                ma.os_armed = true;
                // writable from the start: an edge is pending for write interest
                ma.edge_pending = w;
                let src = Generic::new(
                    FdRef(efd),
                    Interest {
                        readable: r,
                        writable: w,
                    },
                    mode_of(mode),
                );
                if self.cfg.reconf.is_empty() {
                    self.h
                        .insert_source(Tracked::new(src, track.clone()), move |rd, _, ctx: &mut Ctx| {
                            let _g = &guard;
                            let r = ctx.on_cb(id, Payload::Fd(rd));
                            Ok(r.post.unwrap_or(PostAction::Continue))
                        })
                        .map_err(|e| format!("{e:?}"))
                } else {
                    let disp = Dispatcher::new(
                        Tracked::new(src, track.clone()),
                        move |rd: Readiness, _: &mut calloop::generic::NoIoDrop<FdRef>, ctx: &mut Ctx| {
                            let _g = &guard;
                            let r = ctx.on_cb(id, Payload::Fd(rd));
                            Ok(r.post.unwrap_or(PostAction::Continue))
                        },
                    );
                    let r = self.h.register_dispatcher(disp.clone()).map_err(|e| format!("{e:?}"));
                    rt.fdd = Some(disp);
                    r
                }
            }
        };
        match res {
            Ok(tok) => rt.token = Some(tok),
            Err(e) => {
                self.violate(
                    &["C15", "C08", "C16"],
                    "insert-failed",
                    &[("kind", spec.name().into())],
                    format!("insertion of {spec:?} failed without an injected fault: {e}"),
                );
                ma.alive = false;
                ma.enabled = false;
            }
        }
        if self.in_dispatch {
            // inserted during the dispatch: not owed anything in this dispatch
            ma.pe_at_start = 0;
        }
        self.m.push(ma);
        self.rt.push(rt);
    }

    // ------------------------------------------------------------------ menus

    pub fn top_menu(&self) -> Vec<Op> {
        let c = &self.cfg;
        let mut v = vec![Op::Dispatch];
        if self.depth_used >= c.depth {
            return vec![];
        }
        if c.top_dispatch_wait {
            v.push(Op::DispatchWait);
        }
        if c.top_dispatch_short {
            v.push(Op::DispatchShort);
        }
        if c.top_dispatch_none {
            v.push(Op::DispatchNone);
        }
        if c.top_advance && seqhooks::now_ns() < 3 * STEP_NS {
            v.push(Op::Advance);
        }
        if self.m.len() < c.max_actors {
            for &k in &c.insertable {
                v.push(Op::Insert(k));
            }
        }
        if c.top_dup && !self.bad_adapt_done {
            v.push(Op::AdaptBad);
        }
        for (i, a) in self.m.iter().enumerate() {
            if a.alive {
                self.actor_ops(i, a, false, &mut v);
                // a second source over the descriptor of a *disabled* fd source: enabling the
                // first one again must then fail (EEXIST) without touching the newcomer
                if c.top_dup && !a.enabled && matches!(a.spec, KindSpec::Fd { .. }) && self.m.len() < c.max_actors && self.rt[i].efd.is_some()
                    && !self.m.iter().enumerate().any(|(k, b)| b.alive && k != i && self.rt[k].efd.as_ref().map(|e| e.as_raw_fd()) == self.rt[i].efd.as_ref().map(|e| e.as_raw_fd()))
                {
                    v.push(Op::InsertSameFd(i));
                }
            } else {
                if c.top_stale && self.rt[i].token.is_some() {
                    for k in 0..4 {
                        v.push(Op::Stale(i, k));
                    }
                }
                if c.defer_release && self.rt[i].fdd.is_some() {
                    v.push(Op::Release(i));
                    if self.m.len() < c.max_actors && !self.m.iter().enumerate().any(|(k, a)| a.alive && k != i && self.rt[k].efd.as_ref().map(|e| e.as_raw_fd()) == self.rt[i].efd.as_ref().map(|e| e.as_raw_fd())) {
                        v.push(Op::InsertSameFd(i));
                    }
                }
                if c.top_release && self.m.len() < c.max_actors {
                    // (not while another inserted source watches the very same descriptor: that
                    // would be a duplicate registration, which is AdaptDup / InsertDup's business)
                    let same_fd_in_use = self.rt[i].released_efd.as_ref().map(|e| e.as_raw_fd()).map(|fd| {
                        self.m.iter().enumerate().any(|(k, a)| a.alive && k != i && self.rt[k].efd.as_ref().map(|e| e.as_raw_fd()) == Some(fd))
                    }).unwrap_or(false);
                    if (self.rt[i].released_efd.is_some() && !same_fd_in_use) || self.rt[i].released.is_some() {
                        v.push(Op::ReinsertFd(i));
                    }
                    if self.rt[i].released.is_some() {
                        v.push(Op::Readapt(i));
                    }
                }
            }
        }
        v
    }

    fn actor_ops(&self, i: usize, a: &MA, in_cb: bool, v: &mut Vec<Op>) {
        let c = &self.cfg;
        let cur = self.cur_actor();
        let (rm, dis, en, upd, cause, cause2) = if in_cb {
            (c.cb_remove, c.cb_disable, c.cb_enable, c.cb_update, c.cb_cause, c.cb_cause2)
        } else {
            (c.top_remove, c.top_disable, c.top_disable, c.top_update, true, c.top_cause2)
        };
        if a.shadowed {
            let my_fd = self.rt[i].efd.as_ref().map(|e| e.as_raw_fd());
            let dup = self.m.iter().enumerate().any(|(k, b)| b.alive && b.enabled && k != i && self.rt[k].efd.as_ref().map(|e| e.as_raw_fd()) == my_fd);
            if rm {
                v.push(Op::Remove(i));
            }
            if !a.enabled && en && dup && cur != Some(i) {
                v.push(Op::Enable(i));
            }
            if !a.enabled && dis && dup && !in_cb {
                // disabling it once more: whatever that call answers, the source that has taken
                // the descriptor over is not to be disturbed
                v.push(Op::Disable(i));
            }
            if !in_cb && c.top_release && self.rt[i].fdd.is_some() {
                v.push(Op::Unwrap(i));
            }
            return;
        }
        if a.spec == KindSpec::Async {
            if !in_cb {
                v.push(Op::Remove(i));
                v.push(Op::Cause2(i));
            }
            return;
        }
        // removing an executor whose task owns an adapter is probed in a child process by the
        // crash-probe driver (a destructor panic aborts the process and cannot be observed here)
        if rm && a.spec != KindSpec::ExecIo {
            v.push(Op::Remove(i));
        }
        if a.enabled && dis {
            v.push(Op::Disable(i));
        }
        if !a.enabled && en && cur != Some(i) {
            v.push(Op::Enable(i));
        }
        if upd && (a.enabled || c.update_disabled) {
            v.push(Op::Update(i));
        }
        if cause {
            match a.spec {
                KindSpec::Ping => {
                    if a.handles > 0 {
                        v.push(Op::Cause(i))
                    }
                }
                KindSpec::Chan => {
                    if a.senders > 0 && a.q.len() < 3 {
                        v.push(Op::Cause(i))
                    }
                }
                KindSpec::SyncChan(_) => {
                    if a.senders > 0 {
                        v.push(Op::Cause(i))
                    }
                }
                KindSpec::Stream => {
                    if a.senders > 0 && a.q.len() < 3 {
                        v.push(Op::Cause(i))
                    }
                }
                KindSpec::Fd { .. } => {
                    if a.fdc == 0 {
                        v.push(Op::Cause(i))
                    }
                }
                KindSpec::Exec => {
                    if a.tasks.len() < 4 {
                        v.push(Op::Cause(i));
                        if c.exec_pending {
                            v.push(Op::SchedulePending(i));
                        }
                    }
                    if c.exec_pending {
                        let mut k = 0u8;
                        for t in a.tasks.iter() {
                            if t.1 && !t.2 {
                                v.push(Op::CompleteTask(i, k));
                                k += 1;
                            }
                        }
                    }
                }
                KindSpec::Timer(_) | KindSpec::Async | KindSpec::ExecIo => {}
            }
        }
        if cause2 {
            match a.spec {
                KindSpec::Ping => {
                    if a.handles > 0 {
                        v.push(Op::Cause2(i))
                    }
                }
                KindSpec::Chan | KindSpec::SyncChan(_) | KindSpec::Stream => {
                    if a.senders > 0 {
                        v.push(Op::Cause2(i))
                    }
                }
                KindSpec::Fd { .. } => {
                    if a.fdc > 0 && !in_cb {
                        v.push(Op::Cause2(i))
                    }
                }
                KindSpec::Timer(_) | KindSpec::Exec | KindSpec::Async | KindSpec::ExecIo => {}
            }
        }
        if !in_cb && c.top_release && self.rt[i].fdd.is_some() {
            v.push(Op::Unwrap(i));
        }
        if !in_cb && c.top_dup && a.enabled {
            if let KindSpec::Fd { .. } = a.spec {
                v.push(Op::AdaptDup(i));
                v.push(Op::InsertDup(i));
            }
        }
        if !in_cb && c.top_fill {
            if let KindSpec::Fd { .. } = a.spec {
                if a.fdc < 2 {
                    v.push(Op::Fill(i));
                }
            }
        }
        if !in_cb && c.top_clone {
            match a.spec {
                KindSpec::Ping if a.handles > 0 && a.handles < 2 => v.push(Op::CloneHandle(i)),
                KindSpec::Chan if a.senders > 0 && a.senders < 2 => v.push(Op::CloneHandle(i)),
                _ => {}
            }
        }
        if let KindSpec::Fd { r, w, mode } = a.spec {
            if cur != Some(i) && a.enabled {
                for &(nr, nw, nm) in &c.reconf {
                    if (nr, nw, nm) != (r, w, mode) {
                        v.push(Op::Reconf(i, nr, nw, nm));
                    }
                }
            }
        }
        if let KindSpec::Timer(_) = a.spec {
            let grid = if in_cb { &c.cb_set_deadline } else { &c.top_set_deadline };
            if cur != Some(i) {
                for &g in grid {
                    v.push(Op::SetDeadline(i, g));
                }
            }
        }
    }

    fn cb_menu(&self, me: usize, payload: &Payload) -> Vec<Op> {
        let c = &self.cfg;
        let mut v = Vec::new();
        for (i, a) in self.m.iter().enumerate() {
            if a.alive {
                self.actor_ops(i, a, true, &mut v);
            }
        }
        if c.cb_insert && self.m.len() < c.max_actors {
            for &k in &c.insertable {
                v.push(Op::Insert(k));
            }
        }
        if c.cb_idle && self.idles.len() < 2 {
            v.push(Op::InsertIdle);
        }
        if c.cb_remove_self_insert && me != usize::MAX && self.m.len() < c.max_actors && self.m[me].alive {
            for &k in &c.insertable {
                v.push(Op::RemoveSelfInsert(k));
            }
        }
        // C09 gives an explicit non-Continue return precedence over a request the source made on
        // itself earlier in the same callback; that combination belongs to the scripted world
        // (postaction driver). Here a callback does one or the other.
        if c.cb_ret {
            match payload {
                Payload::Fd(_) if self.cb_self_req => {}
                Payload::Fd(_) => {
                    v.push(Op::RetRemove);
                    v.push(Op::RetDisable);
                    v.push(Op::RetReregister);
                }
                Payload::Timer(_) => {
                    v.push(Op::RetToInstant);
                    v.push(Op::RetToDuration);
                    if c.cb_ret_max {
                        v.push(Op::RetToDurationMax);
                    }
                }
                _ => {}
            }
        }
        if c.cb_nodrain {
            if let Payload::Fd(_) = payload {
                v.push(Op::NoDrain);
            }
        }
        v
    }

    // ------------------------------------------------------------------ callbacks

    pub fn on_cb(&mut self, id: usize, p: Payload) -> CbRet {
        if self.teardown {
            return CbRet::default();
        }
        self.callbacks += 1;
        self.sync_implicit();
        let tr = self.rt[id].track.clone();
        let now = seqhooks::now_ns() as i64;
        let desc = match &p {
            Payload::Exec(v) => format!("exec{v}"),
            Payload::Ping => "ping".to_string(),
            Payload::Msg(v) => format!("msg{v}"),
            Payload::Closed => "closed".to_string(),
            Payload::Timer(i) => format!("timer@{}", instant_to_ns(*i)),
            Payload::Fd(r) => format!("fd r{} w{}", r.readable as u8, r.writable as u8),
        };
        self.log(format!("cb {id} {desc}"));
        self.clause("callback-legitimacy");
        let kind = self.m[id].spec.name();

        // --- C01 / C06 / C07: inserted, enabled (with the stated self-latitude)
        let lat_ok = {
            let a = &self.m[id];
            a.lat_pe == Some(tr.pe_seq.get()) && tr.in_pe.get()
        };
        if !self.m[id].alive && !lat_ok {
            let a = &self.m[id];
            let rb = a.removed_by.to_string();
            self.violate(
                &["C01", "C06"],
                "callback-after-removal",
                &[("kind", kind.into()), ("removed_by", rb)],
                format!("callback of actor {id} ({kind}) invoked after its removal: {desc}"),
            );
        } else if self.m[id].alive && !self.m[id].enabled && !lat_ok {
            let a = &self.m[id];
            let uwd = (a.upd_while_disabled || a.ever_upd_while_disabled).to_string();
            self.violate(
                &["C01", "C07"],
                "callback-while-disabled",
                &[("kind", kind.into()), ("updated_while_disabled", uwd)],
                format!("callback of actor {id} ({kind}) invoked while disabled: {desc}"),
            );
        }

        // --- C01: a real cause of exactly this payload
        let mut drain_fd = false;
        match p {
            Payload::Exec(v) => {
                // the executor runs its queue in order: tasks whose gate is closed are polled
                // (and park), the first completable one must be the output we were handed
                let mut expected = None;
                loop {
                    let Some(t) = self.m[id].runq.pop_front() else { break };
                    let a = &mut self.m[id];
                    let Some(idx) = a.tasks.iter().position(|x| x.0 == t) else { continue };
                    if a.tasks[idx].2 {
                        expected = Some(t);
                        a.tasks.remove(idx);
                        break;
                    } else {
                        a.tasks[idx].3 = true;
                    }
                }
                if expected != Some(v) {
                    self.violate(&["C01", "C10"], "callback-without-cause", &[("kind", kind.into())],
                        format!("executor {id} delivered output {v} but the next completable task in its queue is {expected:?}"));
                    let a = &mut self.m[id];
                    a.tasks.retain(|x| x.0 != v);
                    a.runq.retain(|x| *x != v);
                }
            }
            Payload::Ping => {
                if !self.m[id].ping {
                    self.violate(
                        &["C01", "C03"],
                        "callback-without-cause",
                        &[("kind", kind.into())],
                        format!("ping callback of actor {id} without a pending ping"),
                    );
                }
                self.m[id].ping = false;
            }
            Payload::Msg(v) => {
                let front = self.m[id].q.front().copied();
                if front != Some(v) {
                    self.violate(
                        &["C01", "C04"],
                        "callback-without-cause",
                        &[("kind", kind.into())],
                        format!("channel {id} delivered {v} but the model queue head is {front:?}"),
                    );
                    // resynchronise if possible
                    if let Some(pos) = self.m[id].q.iter().position(|&x| x == v) {
                        self.m[id].q.remove(pos);
                    }
                } else {
                    self.m[id].q.pop_front();
                }
            }
            Payload::Closed => {
                let a = &self.m[id];
                if a.senders != 0 || !a.q.is_empty() || a.closed_delivered {
                    let (s, ql, cd) = (a.senders, a.q.len(), a.closed_delivered);
                    self.violate(
                        &["C01", "C04"],
                        "callback-without-cause",
                        &[("kind", kind.into())],
                        format!("channel {id} reported Closed with senders={s} queued={ql} closed_before={cd}"),
                    );
                }
                let a = &mut self.m[id];
                a.closed_delivered = true;
                // the source removes itself when this process_events returns
                if a.alive {
                    a.alive = false;
                    a.enabled = false;
                    a.removed_by = 4;
                    a.lat_pe = Some(tr.pe_seq.get());
                }
            }
            Payload::Timer(ev) => {
                let evns = instant_to_ns(ev);
                let a = &self.m[id];
                let (dl, armed, rib) = (a.deadline, a.armed, a.rearmed_in_batch);
                let uwd = a.ever_upd_while_disabled;
                self.clause("timer-fire");
                if !armed {
                    self.violate(
                        &["C01", "C05"],
                        "timer-fired-without-arming",
                        &[("rearmed_in_batch", rib.to_string()), ("updated_while_disabled", uwd.to_string())],
                        format!("timer {id} fired but the model has no live arming (event {evns})"),
                    );
                } else if let Some(dl) = dl {
                    if now < dl {
                        self.violate(
                            &["C05", "C01"],
                            "timer-early",
                            &[("rearmed_in_batch", rib.to_string()), ("updated_while_disabled", uwd.to_string())],
                            format!("timer {id} fired at {now} before its deadline {dl}"),
                        );
                    }
                    if evns != dl {
                        self.violate(
                            &["C05"],
                            "timer-wrong-event",
                            &[("rearmed_in_batch", rib.to_string()), ("updated_while_disabled", uwd.to_string())],
                            format!("timer {id} fired with event {evns}, current deadline is {dl}"),
                        );
                    }
                }
                if let (Some(prev), Some(dl)) = (self.last_fired_deadline, dl) {
                    if dl < prev && armed {
                        // the order clause relates two timers: the stray wheel entry that D8 leaves
                        // behind may belong to either of them
                        let uwd = self.m.iter().any(|x| x.ever_upd_while_disabled);
                        self.violate(
                            &["C05"],
                            "timer-order",
                            &[("rearmed_in_batch", rib.to_string()), ("updated_while_disabled", uwd.to_string())],
                            format!("timer {id} (deadline {dl}) fired after a timer with the later deadline {prev} in the same dispatch"),
                        );
                    }
                }
                if let Some(dl) = dl {
                    // only a fire that was due is a sound basis for the order clause
                    if armed && now >= dl {
                        self.last_fired_deadline = Some(self.last_fired_deadline.map(|p| p.max(dl)).unwrap_or(dl));
                    }
                }
                self.m[id].armed = false;
            }
            Payload::Fd(rd) => {
                let a = self.m[id].clone();
                if let KindSpec::Fd { r, w, mode } = a.spec {
                    let act_r = a.fdc > 0;
                    let act_w = a.fdc < 2;
                    let mut ok_bits = (!rd.readable || (act_r && r)) && (!rd.writable || (act_w && w));
                    if !ok_bits && a.disturbed {
                        // the event was collected before an earlier callback of this batch
                        // re-registered / drained this source: judge it against the registration
                        // and fd state in force when the dispatch started waiting
                        let (sr, sw, sc) = a.fd_at_start;
                        ok_bits = (!rd.readable || (sc > 0 && sr)) && (!rd.writable || (sc < 2 && sw));
                    }
                    let some = rd.readable || rd.writable;
                    if !ok_bits || !some {
                        let fdc = a.fdc;
                        self.violate(
                            &["C01", "C02"],
                            "callback-without-cause",
                            &[("kind", kind.into())],
                            format!(
                                "fd {id} reported r{} w{} but counter state is {fdc} and interest r{} w{}",
                                rd.readable as u8, rd.writable as u8, r as u8, w as u8
                            ),
                        );
                    }
                    if mode == 2 {
                        self.clause("oneshot");
                        if !a.os_armed && !a.stale_in_batch {
                            self.violate(
                                &["C02"],
                                "oneshot-delivered-twice",
                                &[],
                                format!("one-shot fd {id} delivered again without re-arming"),
                            );
                        }
                    }
                    drain_fd = rd.readable;
                }
                let a = &mut self.m[id];
                if a.stale_in_batch {
                    a.stale_in_batch = false;
                } else {
                    a.os_armed = false;
                    a.edge_pending = false;
                }
            }
        }
        self.m[id].called = true;

        // --- deviations: handle operations from inside the callback
        let mut ret = CbRet::default();
        self.cur.push(id);
        self.cb_self_req = false;
        let mut nodrain = false;
        let mut ret_max = false;
        for _ in 0..self.cfg.max_cb_ops {
            let menu = self.cb_menu(id, &p_kind(&desc));
            if menu.is_empty() {
                break;
            }
            let c = explore::choose(menu.len() as u32 + 1, Kind::Dev);
            if c == 0 {
                break;
            }
            self.deviated = true;
            let op = menu[c as usize - 1];
            self.decoded.push(format!("  in cb of {id}: {op:?}"));
            self.note(format!("cbop {op:?}"));
            match op {
                Op::RetRemove => ret.post = Some(PostAction::Remove),
                Op::RetDisable => ret.post = Some(PostAction::Disable),
                Op::RetReregister => ret.post = Some(PostAction::Reregister),
                Op::RetToInstant => {
                    let d = now + STEP_NS as i64;
                    ret.timeout = Some(TimeoutAction::ToInstant(ns_to_instant(d)));
                    self.m[id].deadline = Some(d);
                    self.m[id].armed = true;
                }
                Op::RetToDuration => {
                    let d = now + STEP_NS as i64;
                    ret.timeout = Some(TimeoutAction::ToDuration(Duration::from_nanos(STEP_NS)));
                    self.m[id].deadline = Some(d);
                    self.m[id].armed = true;
                }
                Op::NoDrain => nodrain = true,
                Op::RetToDurationMax => {
                    ret.timeout = Some(TimeoutAction::ToDuration(Duration::MAX));
                    ret_max = true;
                }
                other => {
                    if matches!(other, Op::Disable(i) | Op::Update(i) if i == id) {
                        self.cb_self_req = true;
                    }
                    self.apply(other)
                }
            }
            if ret.post.is_some() || ret.timeout.is_some() {
                break;
            }
        }
        self.cur.pop();
        self.cb_self_req = false;

        // default behaviours
        if drain_fd && !nodrain {
            if let Some(efd) = self.rt[id].efd.clone() {
                epoll::eventfd_read(efd.as_raw_fd());
                let a = &mut self.m[id];
                let was_full = a.fdc == 2;
                a.fdc = 0;
                if was_full {
                    if let KindSpec::Fd { w: true, .. } = a.spec {
                        a.edge_pending = true;
                    }
                }
            }
        }
        // model effect of the return value
        match ret.post {
            Some(PostAction::Remove) => self.model_removed(id, 4, true),
            Some(PostAction::Disable) => self.model_disabled(id, true),
            Some(PostAction::Reregister) => {
                let old = self.m[id].deadline;
                self.model_reregistered(id, old)
            }
            _ => {}
        }
        if let Payload::Timer(_) = p_kind(&desc) {
            if ret.timeout.is_none() || ret_max {
                // TimeoutAction::Drop (or an unrepresentable reschedule): the timer removes itself
                self.model_removed(id, 4, true);
            }
        }
        ret
    }

    pub fn on_idle(&mut self, k: usize) {
        if self.teardown {
            return;
        }
        self.callbacks += 1;
        self.sync_implicit();
        self.clause("idle-from-callback");
        self.log(format!("idle {k}"));
        self.idles[k].0 += 1;
        if self.idles[k].0 > 1 {
            self.violate(&["C13", "C08"], "idle-ran-twice", &[], format!("idle {k} inserted from a callback ran {} times", self.idles[k].0));
        }
        // the idle callback is itself a place from which every handle operation must work
        self.cur.push(usize::MAX);
        for _ in 0..self.cfg.max_cb_ops {
            let menu = self.cb_menu(usize::MAX, &Payload::Ping);
            if menu.is_empty() {
                break;
            }
            let c = explore::choose(menu.len() as u32 + 1, Kind::Dev);
            if c == 0 {
                break;
            }
            self.deviated = true;
            let op = menu[c as usize - 1];
            self.decoded.push(format!("  in idle {k}: {op:?}"));
            self.note(format!("idleop {op:?}"));
            self.apply(op);
        }
        self.cur.pop();
    }

    // ------------------------------------------------------------------ model helpers

    fn model_removed(&mut self, j: usize, by: u8, self_in_pe: bool) {
        let pe = self.rt[j].track.pe_seq.get();
        let a = &mut self.m[j];
        if !a.alive {
            return;
        }
        a.alive = false;
        a.enabled = false;
        a.armed = false;
        a.removed_by = by;
        a.pe_at_removal = Some(pe);
        if self_in_pe {
            a.lat_pe = Some(pe);
        } else if self.in_dispatch {
            a.disturbed = true;
        }
    }

    fn model_disabled(&mut self, j: usize, self_in_pe: bool) {
        let pe = self.rt[j].track.pe_seq.get();
        let a = &mut self.m[j];
        a.enabled = false;
        a.armed = false;
        a.upd_while_disabled = false;
        if self_in_pe {
            a.lat_pe = Some(pe);
        } else if self.in_dispatch {
            a.disturbed = true;
        }
    }

    fn model_reregistered(&mut self, j: usize, old_deadline: Option<i64>) {
        let in_dispatch = self.in_dispatch;
        let cur = self.cur_actor();
        // callbacks run after the wait: the clock now is the poll time of this dispatch
        let poll_now = seqhooks::now_ns() as i64;
        let pe_now = self.rt[j].track.pe_seq.get();
        let a = &mut self.m[j];
        match a.spec {
            KindSpec::Timer(_) => {
                if let Some(old) = old_deadline {
                    // an expired arming that is already in the current batch and is re-armed
                    if in_dispatch && a.armed && old <= poll_now && !a.called && a.owed {
                        a.rearmed_in_batch = true;
                        self.ever_rearmed_in_batch = true;
                    }
                }
                let a = &mut self.m[j];
                if a.deadline.is_some() {
                    a.armed = true;
                }
            }
            KindSpec::Fd { r, w, .. } => {
                if in_dispatch && a.owed && pe_now == a.pe_at_start {
                    // its event of this batch was collected under the previous registration and
                    // will still be delivered: it belongs to the previous arming
                    a.stale_in_batch = true;
                }
                a.os_armed = true;
                let ready = (r && a.fdc > 0) || (w && a.fdc < 2);
                if ready {
                    a.edge_pending = true;
                }
            }
            _ => {}
        }
        let a = &mut self.m[j];
        if in_dispatch && cur != Some(j) {
            a.disturbed = true;
        }
    }

    /// Implicit removals the model cannot see through a callback: a ping source whose close
    /// was consumed by a `process_events` that started after the close was written.
    fn sync_implicit(&mut self) {
        // executor: a process_events call that has finished since we last looked has run the whole
        // incoming queue: every task whose gate is still closed was polled and now waits for a wake
        for i in 0..self.m.len() {
            if self.m[i].spec != KindSpec::Exec {
                continue;
            }
            let tr = self.rt[i].track.clone();
            let seq = tr.pe_reg_seq.get();
            if seq > self.m[i].exec_pe_seen && !tr.in_pe.get() {
                let a = &mut self.m[i];
                a.exec_pe_seen = seq;
                let left: Vec<u8> = a.runq.drain(..).collect();
                for t in left {
                    if let Some(x) = a.tasks.iter_mut().find(|x| x.0 == t) {
                        if x.2 {
                            a.runq.push_back(t);
                        } else {
                            x.3 = true;
                        }
                    }
                }
            }
        }
        for i in 0..self.m.len() {
            let a = &self.m[i];
            if let (KindSpec::Ping, Some(at), true) = (a.spec, a.close_at, a.alive) {
                let tr = &self.rt[i].track;
                if tr.pe_reg_seq.get() > at && !tr.in_pe.get() {
                    let a = &mut self.m[i];
                    a.alive = false;
                    a.enabled = false;
                    a.removed_by = 4;
                    a.close_at = None;
                }
            }
        }
    }

    // ------------------------------------------------------------------ operations

    /// Apply one operation to the implementation and to the model (top-level or in callback).
    pub fn apply(&mut self, op: Op) {
        self.transitions += 1;
        self.sync_implicit();
        let cur = self.cur_actor();
        match op {
            Op::Insert(k) => self.insert(k),
            Op::RemoveSelfInsert(k) => {
                if let Some(me) = cur {
                    self.apply(Op::Remove(me));
                    self.insert(k);
                }
            }
            Op::Remove(j) if self.m[j].spec == KindSpec::Async => {
                if let Some(ad) = self.rt[j].adapter.take() {
                    let fd = self.rt[j].async_fd.unwrap();
                    // keep the stream alive across the drop of the adapter to look at its flags
                    let dupfd = unsafe { libc::dup(fd) };
                    drop(ad);
                    self.check_restored(j, dupfd);
                    unsafe { libc::close(dupfd) };
                }
                self.model_removed(j, 1, false);
            }
            Op::Remove(j) => {
                let tok = self.rt[j].token.expect("token");
                self.h.remove(tok);
                let is_self = cur == Some(j) && self.rt[j].track.in_pe.get();
                let by = if !self.in_dispatch {
                    1
                } else if is_self {
                    2
                } else {
                    3
                };
                self.model_removed(j, by, is_self);
            }
            Op::Disable(j) if !self.m[j].enabled && self.m[j].shadowed => {
                // repeated disable of a disabled source (the statement does not say what it
                // answers); the step check that follows compares the newcomer's kernel entry
                let tok = self.rt[j].token.expect("token");
                let _ = self.h.disable(&tok);
                self.clause("repeated-disable");
            }
            Op::Disable(j) => {
                let tok = self.rt[j].token.expect("token");
                let r = self.h.disable(&tok);
                if let Err(e) = r {
                    self.violate(
                        &["C07", "C08", "C15"],
                        "disable-failed",
                        &[("kind", self.m[j].spec.name().into())],
                        format!("disable of enabled actor {j} failed: {e:?}"),
                    );
                }
                let is_self = cur == Some(j) && self.rt[j].track.in_pe.get();
                self.model_disabled(j, is_self);
            }
            Op::Enable(j) => {
                let tok = self.rt[j].token.expect("token");
                let r = self.h.enable(&tok);
                let my_fd = self.rt[j].efd.as_ref().map(|e| e.as_raw_fd());
                let dup = my_fd.is_some()
                    && matches!(self.m[j].spec, KindSpec::Fd { .. })
                    && self.m.iter().enumerate().any(|(k, b)| b.alive && b.enabled && k != j && self.rt[k].efd.as_ref().map(|e| e.as_raw_fd()) == my_fd);
                if dup {
                    // the descriptor is registered by another source meanwhile: this enable() has
                    // to fail and to leave that other source alone (its kernel entry is compared
                    // by the step check that follows)
                    self.clause("duplicate-fd");
                    self.dup_fault_seen = true;
                    if r.is_ok() {
                        self.violate(&["C15", "C16"], "duplicate-fd-accepted", &[], format!("enable of actor {j} succeeded although its fd is registered by another source"));
                    }
                } else if let Err(e) = r {
                    self.violate(
                        &["C07", "C08", "C15"],
                        "enable-failed",
                        &[("kind", self.m[j].spec.name().into())],
                        format!("enable of disabled actor {j} failed: {e:?}"),
                    );
                } else {
                    let in_dispatch = self.in_dispatch;
                    let pe_now = self.rt[j].track.pe_seq.get();
                    let a = &mut self.m[j];
                    if in_dispatch && a.owed && pe_now == a.pe_at_start {
                        if let KindSpec::Fd { .. } = a.spec {
                            a.stale_in_batch = true;
                        }
                    }
                    a.enabled = true;
                    a.lat_pe = None;
                    a.upd_while_disabled = false;
                    match a.spec {
                        KindSpec::Timer(_) => a.armed = a.deadline.is_some(),
                        KindSpec::Fd { r, w, .. } => {
                            a.os_armed = true;
                            if (r && a.fdc > 0) || (w && a.fdc < 2) {
                                a.edge_pending = true;
                            }
                        }
                        _ => {}
                    }
                    if in_dispatch {
                        a.disturbed = true;
                    }
                }
            }
            Op::Update(j) => {
                let tok = self.rt[j].token.expect("token");
                let enabled = self.m[j].enabled;
                let r = self.h.update(&tok);
                if enabled {
                    if let Err(e) = r {
                        self.violate(
                            &["C08", "C15"],
                            "update-failed",
                            &[("kind", self.m[j].spec.name().into())],
                            format!("update of enabled actor {j} failed: {e:?}"),
                        );
                    }
                    let old = self.m[j].deadline;
                    self.model_reregistered(j, old);
                } else {
                    // the statement does not say what update() of a disabled source returns;
                    // it must stay silent until enable()
                    self.m[j].upd_while_disabled = true;
                    self.m[j].ever_upd_while_disabled = true;
                    self.log(format!("update-disabled {j} -> {}", r.is_ok()));
                }
            }
            Op::SetDeadline(j, g) => {
                let dl = g as i64 * STEP_NS as i64;
                let tok = self.rt[j].token.expect("token");
                let enabled = self.m[j].enabled;
                if let Some(d) = self.rt[j].timer.as_ref() {
                    d.as_source_mut().inner.set_deadline(ns_to_instant(dl));
                }
                let r = self.h.update(&tok);
                let old = self.m[j].deadline;
                self.m[j].deadline = Some(dl);
                if enabled {
                    if let Err(e) = r {
                        self.violate(&["C08", "C15"], "update-failed", &[("kind", "Timer".into())],
                            format!("update of enabled timer {j} failed: {e:?}"));
                    }
                    self.model_reregistered(j, old);
                } else {
                    self.m[j].upd_while_disabled = true;
                    self.m[j].ever_upd_while_disabled = true;
                }
            }
            Op::Cause(j) => {
                let spec = self.m[j].spec;
                match spec {
                    KindSpec::Ping => {
                        self.rt[j].pings[0].ping();
                        self.m[j].ping = true;
                    }
                    KindSpec::Chan => {
                        let v = self.m[j].next_msg;
                        self.m[j].next_msg = v.wrapping_add(1);
                        if self.rt[j].senders[0].send(v).is_ok() {
                            self.m[j].q.push_back(v);
                            self.m[j].sig_at = Some(self.rt[j].track.pe_reg_seq.get());
                        } else if self.m[j].alive {
                            self.violate(&["C04"], "send-failed", &[],
                                format!("send on channel {j} failed while the channel is in the loop"));
                        }
                    }
                    KindSpec::Stream => {
                        let v = self.m[j].next_msg;
                        self.m[j].next_msg = v.wrapping_add(1);
                        let sh = self.rt[j].stream.clone().unwrap();
                        sh.q.borrow_mut().push_back(v);
                        self.m[j].q.push_back(v);
                        let w = sh.waker.borrow_mut().take();
                        if let Some(w) = w {
                            self.m[j].sig_at = Some(self.rt[j].track.pe_reg_seq.get());
                            w.wake();
                        }
                    }
                    KindSpec::SyncChan(_) => {
                        let v = self.m[j].next_msg;
                        self.m[j].next_msg = v.wrapping_add(1);
                        match self.rt[j].sync_senders[0].try_send(v) {
                            Ok(()) => {
                                self.m[j].q.push_back(v);
                                self.m[j].sig_at = Some(self.rt[j].track.pe_reg_seq.get());
                            }
                            Err(std::sync::mpsc::TrySendError::Full(_)) => {
                                // nothing queued, but the loop is signalled all the same
                                self.m[j].sig_at = Some(self.rt[j].track.pe_reg_seq.get());
                            }
                            Err(_) => {
                                if self.m[j].alive {
                                    self.violate(&["C04"], "send-failed", &[], format!("try_send on channel {j} reported Disconnected while the channel is in the loop"));
                                }
                            }
                        }
                    }
                    KindSpec::Fd { r, .. } => {
                        let efd = self.rt[j].efd.clone().unwrap();
                        epoll::eventfd_write(efd.as_raw_fd(), 1);
                        let a = &mut self.m[j];
                        a.fdc = 1;
                        if r {
                            a.edge_pending = true;
                        }
                    }
                    KindSpec::Exec => {
                        let v = self.m[j].next_msg;
                        self.m[j].next_msg = v.wrapping_add(1);
                        let r = self.rt[j].sched.as_ref().unwrap().schedule(async move { v });
                        if r.is_ok() {
                            self.m[j].tasks.push((v, false, true, false));
                            self.m[j].runq.push_back(v);
                            self.m[j].sig_at = Some(self.rt[j].track.pe_reg_seq.get());
                        } else {
                            self.violate(&["C10"], "schedule-failed", &[], format!("schedule() on live executor {j} failed"));
                        }
                    }
                    KindSpec::Timer(_) | KindSpec::Async | KindSpec::ExecIo => {}
                }
            }
            Op::Cause2(j) => {
                let spec = self.m[j].spec;
                match spec {
                    KindSpec::Ping => {
                        let pe = self.rt[j].track.pe_reg_seq.get();
                        self.rt[j].pings.pop();
                        let a = &mut self.m[j];
                        a.handles -= 1;
                        if a.handles == 0 {
                            a.close_at = Some(pe);
                        }
                    }
                    KindSpec::Chan => {
                        self.rt[j].senders.pop();
                        self.m[j].senders -= 1;
                        self.m[j].sig_at = Some(self.rt[j].track.pe_reg_seq.get());
                    }
                    KindSpec::SyncChan(_) => {
                        self.rt[j].sync_senders.pop();
                        self.m[j].senders -= 1;
                        self.m[j].sig_at = Some(self.rt[j].track.pe_reg_seq.get());
                    }
                    KindSpec::Stream => {
                        let sh = self.rt[j].stream.clone().unwrap();
                        sh.ended.set(true);
                        self.m[j].senders = 0;
                        let w = sh.waker.borrow_mut().take();
                        if let Some(w) = w {
                            self.m[j].sig_at = Some(self.rt[j].track.pe_reg_seq.get());
                            w.wake();
                        }
                    }
                    KindSpec::Fd { w, .. } => {
                        let efd = self.rt[j].efd.clone().unwrap();
                        epoll::eventfd_read(efd.as_raw_fd());
                        let a = &mut self.m[j];
                        let was_full = a.fdc == 2;
                        a.fdc = 0;
                        if was_full && w {
                            a.edge_pending = true;
                        }
                    }
                    KindSpec::Async => {
                        // into_inner: the adapter is gone, the stream is handed back
                        if let Some(ad) = self.rt[j].adapter.take() {
                            let s = ad.into_inner();
                            self.check_restored(j, s.as_raw_fd());
                            self.rt[j].released = Some(s);
                        }
                        self.model_removed(j, 1, false);
                    }
                    KindSpec::Timer(_) | KindSpec::Exec | KindSpec::ExecIo => {}
                }
            }
            Op::AdaptBad => {
                self.clause("bad-fd");
                self.bad_adapt_done = true;
                self.dup_fault_seen = true;
                let before = self.h.verif_stats();
                let table_before = epoll::table(self.epfd);
                let r = self.h.adapt_io(BadFd).map(|_| ());
                if r.is_ok() {
                    self.violate(&["C15"], "bad-fd-accepted", &[], "adapt_io over a descriptor that is not open succeeded".into());
                }
                let after = self.h.verif_stats();
                let occ = |s: &calloop::verif::Stats| s.slots.iter().filter(|x| x.1).map(|x| x.0).collect::<Vec<_>>();
                if occ(&before) != occ(&after) {
                    self.violate(&["C15"], "failed-insert-leaks-slot", &[("how", "adapt_io(EBADF)".into())], format!("adapt_io over a closed descriptor failed but the occupied slots changed: {:?} -> {:?}", occ(&before), occ(&after)));
                }
                if table_before != epoll::table(self.epfd) {
                    self.violate(&["C15", "C16"], "failed-insert-leaks-fd", &[], "adapt_io over a closed descriptor changed the poller's interest list".into());
                }
            }
            Op::AdaptDup(j) | Op::InsertDup(j) => {
                self.clause("duplicate-fd");
                self.dup_fault_seen = true;
                let efd = self.rt[j].efd.clone().unwrap();
                let before = self.h.verif_stats();
                let err = if let Op::AdaptDup(_) = op {
                    self.h.adapt_io(FdRef(efd)).map(|_| ()).map_err(|e| format!("{e:?}"))
                } else {
                    self.h
                        .insert_source(Generic::new(FdRef(efd), Interest::READ, Mode::Level), |_, _, _: &mut Ctx| Ok(PostAction::Continue))
                        .map(|t| self.h.remove(t))
                        .map_err(|e| format!("{:?}", e.error))
                };
                if err.is_ok() {
                    self.violate(&["C15", "C16"], "duplicate-fd-accepted", &[], format!("{op:?}: registering an fd that is already registered in this loop succeeded"));
                }
                let after = self.h.verif_stats();
                let occ = |s: &calloop::verif::Stats| s.slots.iter().filter(|x| x.1).map(|x| x.0).collect::<Vec<_>>();
                if occ(&before) != occ(&after) {
                    self.violate(&["C15"], "failed-insert-leaks-slot", &[], format!("{op:?} failed but the occupied slots changed: {:?} -> {:?}", occ(&before), occ(&after)));
                }
                // the kernel registration of the source that owns the fd is compared by after_step
            }
            Op::Release(j) => {
                if let Some(d) = self.rt[j].fdd.take() {
                    match catch_unwind(AssertUnwindSafe(move || drop(d.into_source_inner()))) {
                        Ok(()) => {}
                        Err(_) => self.violate(&["C06"], "not-released", &[("kind", "FdLevel".into()), ("removed_by", self.m[j].removed_by.to_string())],
                            format!("into_source_inner of removed fd actor {j} failed")),
                    }
                }
            }
            Op::InsertSameFd(j) => {
                let e = self.rt[j].efd.clone().unwrap();
                self.pending_efd = Some(e);
                if self.m[j].alive {
                    self.m[j].shadowed = true;
                }
                // the descriptor is the harness's own: what the newcomer inherits is the state of
                // the kernel object itself, which another source over the same descriptor may have
                // changed since actor j last touched it
                let readable = seqhooks::fd_readable(self.pending_efd.as_ref().unwrap().as_raw_fd());
                let fdc = if readable { self.m[j].fdc.max(1) } else { 0 };
                self.insert(KindSpec::Fd { r: true, w: false, mode: 0 });
                if let Some(a) = self.m.last_mut() {
                    a.fdc = fdc;
                    a.edge_pending = fdc > 0;
                }
            }
            Op::Unwrap(j) => {
                let tok = self.rt[j].token.expect("token");
                self.h.remove(tok);
                self.model_removed(j, 1, false);
                if let Some(d) = self.rt[j].fdd.take() {
                    match catch_unwind(AssertUnwindSafe(move || d.into_source_inner())) {
                        Ok(src) => {
                            // Tracked has a Drop impl: take the Generic out by swapping in a scratch one
                            let mut src = src;
                            let scratch = Generic::new(FdRef(Rc::new(epoll::eventfd())), Interest::READ, Mode::Level);
                            let g = std::mem::replace(&mut src.inner, scratch);
                            let fdref = g.unwrap();
                            self.rt[j].released_efd = Some(fdref.0);
                        }
                        Err(_) => self.violate(&["C06"], "not-released", &[("kind", "FdLevel".into()), ("removed_by", "1".into())],
                            format!("into_source_inner of removed fd actor {j} failed")),
                    }
                }
            }
            Op::ReinsertFd(j) => {
                if let Some(e) = self.rt[j].released_efd.take() {
                    self.pending_efd = Some(e);
                    let fdc = self.m[j].fdc;
                    self.insert(KindSpec::Fd { r: true, w: false, mode: 0 });
                    // the new source watches the same kernel object: it inherits its state
                    if let Some(a) = self.m.last_mut() {
                        a.fdc = fdc;
                        a.edge_pending = fdc > 0;
                    }
                } else if let Some(s) = self.rt[j].released.take() {
                    // a plain Generic over the stream that an adapter gave back
                    self.insert_stream_generic(s);
                }
            }
            Op::SchedulePending(j) => {
                let v = self.m[j].next_msg;
                self.m[j].next_msg = v.wrapping_add(1);
                let open = Rc::new(std::cell::Cell::new(false));
                let slot: Rc<RefCell<Option<std::task::Waker>>> = Rc::new(RefCell::new(None));
                let (o2, s2) = (open.clone(), slot.clone());
                let fut = std::future::poll_fn(move |cx: &mut std::task::Context<'_>| {
                    if o2.get() {
                        std::task::Poll::Ready(v)
                    } else {
                        *s2.borrow_mut() = Some(cx.waker().clone());
                        std::task::Poll::Pending
                    }
                });
                if self.rt[j].sched.as_ref().unwrap().schedule(fut).is_ok() {
                    self.rt[j].gates.push((v, open, slot));
                    self.m[j].tasks.push((v, true, false, false));
                    self.m[j].runq.push_back(v);
                    self.m[j].sig_at = Some(self.rt[j].track.pe_reg_seq.get());
                } else {
                    self.violate(&["C10"], "schedule-failed", &[], format!("schedule() on live executor {j} failed"));
                }
            }
            Op::CompleteTask(j, k) => {
                // the k-th task whose gate is still closed
                let vals: Vec<u8> = self.m[j].tasks.iter().filter(|t| t.1 && !t.2).map(|t| t.0).collect();
                if let Some(&v) = vals.get(k as usize) {
                    let g = self.rt[j].gates.iter().find(|g| g.0 == v).map(|g| (g.1.clone(), g.2.clone()));
                    if let Some((open, slot)) = g {
                        open.set(true);
                        let w = slot.borrow_mut().take();
                        let pe = self.rt[j].track.pe_reg_seq.get();
                        let a = &mut self.m[j];
                        if let Some(t) = a.tasks.iter_mut().find(|t| t.0 == v) {
                            t.2 = true;
                            if t.3 {
                                // it has been polled and is waiting: the wake re-queues its runnable
                                t.3 = false;
                                a.runq.push_back(v);
                                a.sig_at = Some(pe);
                            }
                        }
                        if let Some(w) = w {
                            w.wake();
                        }
                    }
                }
            }
            Op::InsertIdle => {
                let k = self.idles.len();
                self.idles.push((0, self.dispatch_no));
                let _ = self.h.insert_idle(move |ctx: &mut Ctx| ctx.on_idle(k));
            }
            Op::Readapt(j) => {
                if let Some(s) = self.rt[j].released.take() {
                    self.pending_stream = Some(s);
                    self.insert(KindSpec::Async);
                }
            }
            Op::CloneHandle(j) => match self.m[j].spec {
                KindSpec::Ping => {
                    let p = self.rt[j].pings[0].clone();
                    self.rt[j].pings.push(p);
                    self.m[j].handles += 1;
                }
                KindSpec::Chan => {
                    let s = self.rt[j].senders[0].clone();
                    self.rt[j].senders.push(s);
                    self.m[j].senders += 1;
                }
                _ => {}
            },
            Op::Fill(j) => {
                let efd = self.rt[j].efd.clone().unwrap();
                let fd = efd.as_raw_fd();
                epoll::eventfd_read(fd);
                epoll::eventfd_write(fd, EFD_MAX);
                let a = &mut self.m[j];
                let was_empty = a.fdc == 0;
                a.fdc = 2;
                if let KindSpec::Fd { r: true, .. } = a.spec {
                    if was_empty {
                        a.edge_pending = true;
                    }
                }
            }
            Op::Reconf(j, r, w, mode) => {
                let tok = self.rt[j].token.expect("token");
                if let Some(d) = self.rt[j].fdd.as_ref() {
                    let mut s = d.as_source_mut();
                    s.inner.interest = Interest { readable: r, writable: w };
                    s.inner.mode = mode_of(mode);
                }
                let res = self.h.update(&tok);
                if let Err(e) = res {
                    self.violate(&["C08", "C15", "C02"], "update-failed", &[("kind", "Fd".into())],
                        format!("update of enabled fd {j} with new interest/mode failed: {e:?}"));
                }
                // an edge-triggered registration may have had an event collected in this batch that
                // the model does not predict (extra edge reports are accepted): if the source is
                // re-configured before that event is served, the delivery still belongs to the old
                // registration, not to the arming made here
                let prev_edge = matches!(self.m[j].spec, KindSpec::Fd { mode: 1, .. });
                self.m[j].spec = KindSpec::Fd { r, w, mode };
                self.model_reregistered(j, None);
                if prev_edge && self.in_dispatch && self.rt[j].track.pe_seq.get() == self.m[j].pe_at_start {
                    self.m[j].stale_in_batch = true;
                }
            }
            Op::Stale(j, k) => self.stale_op(j, k),
            Op::Advance => seqhooks::advance(Duration::from_nanos(STEP_NS)),
            Op::Dispatch | Op::DispatchWait | Op::DispatchShort | Op::DispatchNone => {
                unreachable!("dispatch is executed by the runner")
            }
            Op::RetToDurationMax => unreachable!(),
            Op::RetRemove | Op::RetDisable | Op::RetReregister | Op::RetToInstant | Op::RetToDuration | Op::NoDrain => {
                unreachable!()
            }
        }
    }

    /// C17 clause: dropping the adapter / into_inner restores the blocking mode the fd had before
    fn check_restored(&mut self, j: usize, fd: i32) {
        self.clause("blocking-mode-restored");
        let nb = unsafe { libc::fcntl(fd, libc::F_GETFL) } & libc::O_NONBLOCK != 0;
        if nb {
            self.violate(&["C17"], "blocking-mode-not-restored", &[], format!("adapter {j} was released but its fd is still non-blocking (it was blocking before adapt_io)"));
        }
    }

    /// A plain level-triggered Generic over a stream an adapter gave back: must be insertable.
    fn insert_stream_generic(&mut self, s: std::os::unix::net::UnixStream) {
        self.clause("reinsert-released-fd");
        let r = self.h.insert_source(Generic::new(s, Interest::READ, Mode::Level), |_, _, _: &mut Ctx| Ok(PostAction::Continue));
        match r {
            Ok(tok) => self.h.remove(tok),
            Err(e) => self.violate(&["C16"], "released-fd-not-reinsertable", &[("via", "generic".into())],
                format!("inserting a Generic over the fd an Async adapter released failed: {:?}", e.error)),
        }
    }

    fn stale_op(&mut self, j: usize, k: u8) {
        self.clause("stale-token");
        let tok = self.rt[j].token.expect("token");
        let before_stats = self.h.verif_stats();
        let before: Vec<[u32; 6]> = self.rt.iter().map(|r| r.track.counters()).collect();
        let res = match k {
            0 => Some(self.h.enable(&tok)),
            1 => Some(self.h.disable(&tok)),
            2 => Some(self.h.update(&tok)),
            _ => {
                self.h.remove(tok);
                None
            }
        };
        let name = ["enable", "disable", "update", "remove"][k as usize];
        if let Some(r) = res {
            if !matches!(r, Err(calloop::Error::InvalidToken)) {
                self.violate(
                    &["C06"],
                    "dead-token-accepted",
                    &[("op", name.into())],
                    format!("{name}() with the dead token of actor {j} returned {r:?} instead of InvalidToken"),
                );
            }
        }
        let after_stats = self.h.verif_stats();
        let after: Vec<[u32; 6]> = self.rt.iter().map(|r| r.track.counters()).collect();
        if before_stats != after_stats || before != after {
            self.violate(
                &["C06", "C01"],
                "dead-token-had-effect",
                &[("op", name.into())],
                format!("{name}() with the dead token of actor {j} changed loop state"),
            );
        }
    }

    // ------------------------------------------------------------------ dispatch

    /// Does the model know of anything that makes the epoll fd readable?
    fn kernel_pending(&self) -> bool {
        self.m.iter().enumerate().any(|(i, a)| {
            if !(a.alive && a.enabled) {
                return false;
            }
            let tr = &self.rt[i].track;
            match a.spec {
                KindSpec::Ping => a.ping || a.close_at.is_some(),
                KindSpec::Chan | KindSpec::SyncChan(_) | KindSpec::Stream | KindSpec::Exec | KindSpec::ExecIo => a.sig_at.map(|at| tr.pe_reg_seq.get() <= at).unwrap_or(false),
                KindSpec::Timer(_) | KindSpec::Async => false,
                KindSpec::Fd { r, w, mode } => {
                    let ready = (r && a.fdc > 0) || (w && a.fdc < 2);
                    match mode {
                        0 => ready,
                        // edge: a further write while ready re-queues the item, so "ready" is
                        // the only sound over-approximation; one-shot: only while armed
                        1 => ready,
                        _ => ready && a.os_armed,
                    }
                }
            }
        })
    }

    pub fn pre_dispatch(&mut self) {
        self.in_dispatch = true;
        self.dispatch_no += 1;
        self.last_fired_deadline = None;
        self.now_at_dispatch = seqhooks::now_ns();
        for (i, a) in self.m.iter_mut().enumerate() {
            a.called = false;
            a.disturbed = false;
            a.stale_in_batch = false;
            a.rearmed_in_batch = false;
            a.pe_at_start = self.rt[i].track.pe_seq.get();
            if let KindSpec::Fd { r, w, .. } = a.spec {
                a.fd_at_start = (r, w, a.fdc);
            }
            a.owed = false;
            if !(a.alive && a.enabled) {
                continue;
            }
            a.owed = match a.spec {
                KindSpec::Ping => a.ping,
                KindSpec::Chan | KindSpec::SyncChan(_) | KindSpec::Stream => !a.q.is_empty() || (a.senders == 0 && !a.closed_delivered),
                KindSpec::Exec => a.runq.iter().any(|t| a.tasks.iter().any(|x| x.0 == *t && x.2)),
                KindSpec::Async | KindSpec::ExecIo => false,
                KindSpec::Timer(_) => false, // decided after the wait (needs the poll time)
                KindSpec::Fd { r, w, mode } => {
                    let ready = (r && a.fdc > 0) || (w && a.fdc < 2);
                    match mode {
                        0 => ready,
                        1 => ready && a.edge_pending,
                        _ => ready && a.os_armed,
                    }
                }
            };
        }
        // timers: candidates, decided in post_dispatch with the observed poll time
        for a in self.m.iter_mut() {
            if let KindSpec::Timer(_) = a.spec {
                a.owed = a.alive && a.enabled && a.armed && a.deadline.is_some();
            }
        }
        // the poll time is at least now; refined in post_dispatch
        self.now_at_poll = seqhooks::now_ns();
    }

    /// The timeout the wait seam must see: min(timeout, earliest armed deadline - now).
    pub fn expected_wait(&self, timeout: Option<Duration>) -> Option<Duration> {
        let now = seqhooks::now_ns() as i64;
        let next = self
            .m
            .iter()
            .filter(|a| a.alive && a.enabled && a.armed && matches!(a.spec, KindSpec::Timer(_)))
            .filter_map(|a| a.deadline)
            .min()
            .map(|d| Duration::from_nanos((d - now).max(0) as u64));
        match (timeout, next) {
            (Some(t), Some(n)) => Some(t.min(n)),
            (t, n) => t.or(n),
        }
    }

    pub fn check_wait(
        &mut self,
        timeout: Option<Duration>,
        expect: Option<Duration>,
        pending_before: bool,
        waits: &[seqhooks::WaitRec],
    ) {
        self.clause("wait-request");
        let Some(w) = waits.first().cloned() else { return };
        let rib = self.ever_rearmed_in_batch;
        let uwd = self.m.iter().any(|a| a.ever_upd_while_disabled && matches!(a.spec, KindSpec::Timer(_)));
        let feats = vec![("rearmed_in_batch", rib.to_string()), ("updated_while_disabled", uwd.to_string())];
        if w.requested != expect {
            self.violate(&["C12"], "wait-request-mismatch", &feats,
                format!("dispatch({timeout:?}) asked the poller to wait {:?}, expected {expect:?} = min(timeout, earliest armed deadline - now)", w.requested));
        }
        if timeout == Some(Duration::ZERO) && w.requested != Some(Duration::ZERO) {
            self.violate(&["C12"], "zero-timeout-blocks", &feats,
                format!("dispatch(0) asked the poller to wait {:?}", w.requested));
        }
        if !pending_before && w.readable {
            self.violate(&["C12", "C03"], "spurious-readiness", &[],
                "nothing is pending according to the model but the epoll fd was readable when the wait began (the loop would spin)".to_string());
        }
        if !pending_before && !w.readable && expect.is_none() && !w.would_block_forever {
            self.violate(&["C12"], "none-does-not-block", &[], "dispatch(None) with nothing pending and no timer did not wait".into());
        }
        if w.would_block_forever {
            self.clause("wait-forever");
        }
        if w.slept.is_some() {
            self.clause("wait-slept");
        }
    }

    pub fn post_dispatch(&mut self, ok: bool, waits: &[seqhooks::WaitRec]) {
        self.in_dispatch = false;
        self.clause("dispatch-owed");
        if waits.len() != 1 && ok {
            self.violate(
                &["C12"],
                "wait-count",
                &[],
                format!("dispatch performed {} waits instead of exactly one", waits.len()),
            );
        }
        self.sync_implicit();
        let n = self.m.len();
        for i in 0..n {
            let a = &self.m[i];
            let tr = &self.rt[i].track;
            let ran = tr.pe_seq.get() > a.pe_at_start;
            let kind = a.spec.name();
            let mut owed = a.owed;
            if let KindSpec::Timer(_) = a.spec {
                owed = owed && a.deadline.map(|d| d <= self.now_at_poll as i64).unwrap_or(false);
            }
            if ok && owed && !a.disturbed && !a.called {
                let feats = vec![("kind", kind.to_string())];
                let props: Vec<&str> = match a.spec {
                    KindSpec::Timer(_) => vec!["C02", "C05"],
                    KindSpec::Ping => vec!["C02", "C03"],
                    KindSpec::Chan | KindSpec::SyncChan(_) => vec!["C02", "C04"],
                    KindSpec::Stream => vec!["C02", "C10"],
                    KindSpec::Exec => vec!["C02", "C10"],
                    _ => vec!["C02"],
                };
                let msg = format!(
                    "actor {i} ({kind}) had a pending cause when the dispatch started waiting, was not disturbed, and its callback was not invoked (process_events ran: {ran})"
                );
                self.violate(&props, "owed-not-called", &feats, msg);
            }
        }
        // closed ping with no outstanding ping: ran without callback is the expected path
        // channel: everything queued must be drained within the batch limit
        for i in 0..n {
            let a = &self.m[i];
            if let KindSpec::Chan = a.spec {
                if ok && a.owed && !a.disturbed && a.alive && a.enabled && !a.q.is_empty() && a.q.len() < 1024 {
                    // messages that were queued before the wait must be gone
                    // (messages sent after this channel's own callback may remain)
                }
            }
        }
    }

    // ------------------------------------------------------------------ step checks

    pub fn after_step(&mut self) {
        // the kernel view is compared first: the release check below drops sources the harness
        // still holds, and a Generic removes itself from the poller when it is dropped
        if self.cfg.check_epoll {
            self.check_epoll();
        }
        // C06: released exactly once
        if self.cfg.check_release {
            self.clause("release");
            for i in 0..self.m.len() {
                let a = self.m[i].clone();
                if a.spec == KindSpec::Async {
                    continue;
                }
                if matches!(a.spec, KindSpec::Exec | KindSpec::ExecIo) && !a.alive && !self.rt[i].destroyed_checked && self.rt[i].track.src_dropped.get() == 1 {
                    self.rt[i].destroyed_checked = true;
                    self.clause("executor-destroyed");
                    // every future it still held is gone: the gate handles the harness keeps are
                    // the only references left
                    let leaked: Vec<u8> = self.rt[i].gates.iter().filter(|g| Rc::strong_count(&g.1) > 1).map(|g| g.0).collect();
                    if !leaked.is_empty() {
                        let polled: Vec<u8> = a.tasks.iter().filter(|t| t.3).map(|t| t.0).collect();
                        self.violate(&["C10", "C06"], "future-leaked-at-executor-drop", &[("drops", "0".into()), ("wake_overlaps_drop", "false".into())],
                            format!("executor {i} was removed and dropped but the futures of tasks {leaked:?} are still alive (tasks polled and pending at that time: {polled:?})"));
                    }
                    if self.rt[i].sched.as_ref().unwrap().schedule(async { 0u8 }).is_ok() {
                        self.violate(&["C10"], "schedule-after-destroy", &[], format!("schedule() succeeded after executor {i} was removed and dropped"));
                    }
                }
                let tr = self.rt[i].track.clone();
                let (sd, cd) = (tr.src_dropped.get(), tr.cb_dropped.get());
                let kind = a.spec.name();
                let is_disp = self.rt[i].timer.is_some() || self.rt[i].fdd.is_some();
                if sd > 1 || cd > 1 {
                    self.violate(&["C06"], "double-drop", &[("kind", kind.into())],
                        format!("actor {i} ({kind}) source dropped {sd}x, callback dropped {cd}x"));
                }
                if !a.alive && is_disp && self.cfg.defer_release && self.rt[i].fdd.is_some() {
                    // released later by an explicit operation; the loop must not hold it though
                    continue;
                }
                if !a.alive {
                    if is_disp {
                        // harness still owns a Dispatcher handle: the loop must have released its own
                        let r = if let Some(d) = self.rt[i].timer.take() {
                            catch_unwind(AssertUnwindSafe(move || drop(d.into_source_inner())))
                        } else {
                            let d = self.rt[i].fdd.take().unwrap();
                            catch_unwind(AssertUnwindSafe(move || drop(d.into_source_inner())))
                        };
                        match r {
                            Ok(()) => {}
                            Err(_) => self.violate(&["C06"], "not-released", &[("kind", kind.into()), ("removed_by", a.removed_by.to_string())],
                                format!("Dispatcher::into_source_inner of removed actor {i} ({kind}) failed: the loop still holds it")),
                        }
                    } else if sd != 1 || cd != 1 {
                        let rb = a.removed_by.to_string();
                        self.violate(&["C06"], "not-released", &[("kind", kind.into()), ("removed_by", rb)],
                            format!("removed actor {i} ({kind}): source dropped {sd}x, callback dropped {cd}x after the step"));
                    }
                } else if sd != 0 || cd != 0 {
                    self.violate(&["C06", "C01"], "dropped-while-inserted", &[("kind", kind.into())],
                        format!("actor {i} ({kind}) is inserted but its source/callback was dropped ({sd}/{cd})"));
                }
            }
        }
        // the loop never hands an event to a source it has removed (for the author of an event
        // source, process_events *is* the callback); a disabled source may still be handed stale
        // events of the batch, a removed one never
        for i in 0..self.m.len() {
            let a = &self.m[i];
            if let (false, Some(at)) = (a.alive, a.pe_at_removal) {
                let now = self.rt[i].track.pe_seq.get();
                if now > at {
                    let kind = a.spec.name();
                    let rb = a.removed_by.to_string();
                    self.m[i].pe_at_removal = Some(now);
                    self.violate(&["C06", "C01"], "process-events-after-removal", &[("kind", kind.into()), ("removed_by", rb)],
                        format!("the loop called process_events of actor {i} ({kind}) {} more time(s) after it had been removed", now - at));
                }
            }
        }
        // slot table vs model
        let stats = self.h.verif_stats();
        let occupied = stats.slots.iter().filter(|s| s.1).count();
        // an ExecIo actor owns two slots: the executor's and its task's adapter
        let alive = self.m.iter().filter(|a| a.alive).count() + self.m.iter().filter(|a| a.alive && a.spec == KindSpec::ExecIo).count();
        if occupied != alive {
            self.violate(&["C06", "C15"], "slot-count", &[],
                format!("{occupied} occupied slots but the model has {alive} inserted sources"));
        }
        for (i, a) in self.m.iter().enumerate() {
            if a.alive && a.spec != KindSpec::Async {
                let key = calloop::verif::registration_key(self.rt[i].token.as_ref().unwrap());
                if !stats.slots.iter().any(|s| s.0 == key && s.1) {
                    self.violations.push(Violation {
                        props: vec!["C06".into(), "C01".into()],
                        clause: "slot-missing".into(),
                        features: BTreeMap::new(),
                        message: format!("inserted actor {i} has no occupied slot with its token"),
                        tape: vec![],
                        decoded: vec![],
                    });
                }
            }
        }
        if stats.pending_action != PostAction::Continue {
            self.violate(&["C09"], "deferred-cell-leak", &[],
                format!("deferred post-action cell holds {:?} between dispatches", stats.pending_action));
        }
        // timer heap = live armings (no residue)
        let armings = self.m.iter().filter(|a| a.alive && a.enabled && a.armed && matches!(a.spec, KindSpec::Timer(_))).count();
        if stats.timers.len() != armings {
            let rib = self.ever_rearmed_in_batch;
            let uwd = self.m.iter().any(|a| a.ever_upd_while_disabled && matches!(a.spec, KindSpec::Timer(_)));
            self.clause("timer-heap");
            self.violate(&["C05"], "timer-heap-residue", &[("rearmed_in_batch", rib.to_string()), ("updated_while_disabled", uwd.to_string())],
                format!("timer heap holds {} entries but the model has {armings} live armings", stats.timers.len()));
        }
    }

    pub fn check_epoll(&mut self) {
        self.clause("epoll-table");
        let table = epoll::table(self.epfd);
        let mut expected: Vec<(u64, u32, Option<i32>, usize)> = Vec::new();
        for (i, a) in self.m.iter().enumerate() {
            if !(a.alive && a.enabled) {
                continue;
            }
            if a.spec == KindSpec::Async {
                if let (Some(k), Some(fd)) = (self.rt[i].async_key, self.rt[i].async_fd) {
                    expected.push((k, self.masks.expected(Interest::EMPTY, Mode::OneShot), Some(fd), i));
                }
                continue;
            }
            let key = calloop::verif::registration_key(self.rt[i].token.as_ref().unwrap()) as u64;
            match a.spec {
                KindSpec::Ping | KindSpec::Chan | KindSpec::SyncChan(_) | KindSpec::Stream | KindSpec::Exec | KindSpec::ExecIo => {
                    expected.push((key, self.masks.expected(Interest::READ, Mode::Level), None, i))
                }
                KindSpec::Async => {}
                KindSpec::Fd { r, w, mode } => {
                    let fd = self.rt[i].efd.as_ref().map(|f| f.as_raw_fd());
                    let full = self.masks.expected(Interest { readable: r, writable: w }, mode_of(mode));
                    expected.push((key, full, fd, i));
                }
                KindSpec::Timer(_) => {}
            }
        }
        let mut used = vec![false; table.len()];
        // the adapter owned by an ExecIo task: present as long as the executor is inserted, with
        // whatever one-shot interest the task last asked for
        for (i, a) in self.m.iter().enumerate() {
            if a.alive && a.spec == KindSpec::ExecIo {
                if let Some(fd) = self.rt[i].async_fd {
                    if let Some(p) = table.iter().position(|e| e.fd == fd) {
                        used[p] = true;
                    }
                }
            }
        }
        for (key, mask, fd, i) in &expected {
            let pos = table.iter().position(|e| e.data == *key);
            match pos {
                None => {
                    let kind = self.m[*i].spec.name();
                    // lost right after a disable()/enable() of a *different* source: that call
                    // disturbed this one (C07)
                    let by_other = matches!(self.last_top, Some(Op::Disable(j)) | Some(Op::Enable(j)) if j != *i);
                    let tags: &[&str] = if by_other { &["C16", "C07"] } else { &["C16"] };
                    self.violate(tags, "epoll-missing", &[("kind", kind.into())],
                        format!("enabled actor {i} ({kind}) has no epoll entry with key {key:#x}; table={table:?}"));
                }
                Some(p) => {
                    used[p] = true;
                    let e = table[p];
                    let a = &self.m[*i];
                    let oneshot_disarmed = matches!(a.spec, KindSpec::Fd { mode: 2, .. }) && !a.os_armed;
                    let ok_mask = if oneshot_disarmed {
                        epoll::is_disarmed(e.events) || e.events == *mask
                    } else {
                        e.events == *mask
                    };
                    if !ok_mask {
                        let kind = self.m[*i].spec.name();
                        self.violate(&["C16", "C02"], "epoll-mask", &[("kind", kind.into())],
                            format!("actor {i} ({kind}) registered with events {:#x}, expected {:#x}", e.events, mask));
                    }
                    if let Some(fd) = fd {
                        if e.fd != *fd {
                            self.violate(&["C16"], "epoll-fd", &[],
                                format!("actor {i}: key {key:#x} is attached to fd {} instead of {fd}", e.fd));
                        }
                    }
                }
            }
        }
        for (p, e) in table.iter().enumerate() {
            if !used[p] {
                let owner = self.m.iter().enumerate().find(|(i, _)| {
                    self.rt[*i].efd.as_ref().map(|f| f.as_raw_fd()) == Some(e.fd) || self.rt[*i].async_fd == Some(e.fd)
                });
                let kind = owner.map(|(_, a)| a.spec.name()).unwrap_or("internal-fd");
                self.violate(&["C16"], "epoll-stale", &[("kind", kind.into())],
                    format!("epoll holds fd {} (events {:#x}, key {:#x}) which belongs to no enabled source", e.fd, e.events, e.data));
            }
        }
    }

    pub fn fingerprint(&self, deep: bool) -> u64 {
        let mut h = std::collections::hash_map::DefaultHasher::new();
        self.m.hash(&mut h);
        self.bad_adapt_done.hash(&mut h);
        for r in &self.rt {
            r.token.map(|t| calloop::verif::registration_key(&t)).hash(&mut h);
            r.track.registered.get().hash(&mut h);
            // harness-side state that decides which operations are possible later
            (r.timer.is_some(), r.fdd.is_some(), r.adapter.is_some(), r.released.is_some(), r.released_efd.is_some()).hash(&mut h);
            (r.pings.len(), r.senders.len(), r.sync_senders.len(), r.gates.len()).hash(&mut h);
            r.efd.as_ref().map(|e| e.as_raw_fd() - self.epfd).hash(&mut h);
            r.async_fd.map(|f| f - self.epfd).hash(&mut h);
        }
        self.idles.hash(&mut h);
        let s = self.h.verif_stats();
        for sl in &s.slots {
            (sl.0, sl.1).hash(&mut h);
        }
        s.lifecycle.hash(&mut h);
        let mut t: Vec<(i64, usize)> = s.timers.iter().map(|e| (instant_to_ns(e.0), e.1)).collect();
        t.sort();
        t.hash(&mut h);
        s.idles.hash(&mut h);
        seqhooks::now_ns().hash(&mut h);
        if deep {
            for e in epoll::table_raw(self.epfd) {
                (e.fd - self.epfd, e.events, e.data).hash(&mut h);
            }
            // kernel counters of every eventfd this execution created
            for fd in (self.epfd + 1)..(self.epfd + 64) {
                if let Ok(s) = std::fs::read_to_string(format!("/proc/self/fdinfo/{fd}")) {
                    for l in s.lines() {
                        if let Some(c) = l.strip_prefix("eventfd-count:") {
                            (fd - self.epfd, c.trim().to_string()).hash(&mut h);
                        }
                    }
                }
            }
        }
        h.finish()
    }
}

fn p_kind(desc: &str) -> Payload {
    // menu construction only needs the payload family
    if desc.starts_with("fd") {
        Payload::Fd(Readiness::EMPTY)
    } else if desc.starts_with("timer") {
        Payload::Timer(seqhooks::base())
    } else if desc.starts_with("msg") {
        Payload::Msg(0)
    } else if desc.starts_with("exec") {
        Payload::Exec(0)
    } else if desc.starts_with("closed") {
        Payload::Closed
    } else {
        Payload::Ping
    }
}

/// A harness stream: items and the end are produced by operations; it parks the waker it is
/// polled with whenever it has nothing to yield.
#[derive(Default)]
pub struct StreamSh {
    pub q: RefCell<VecDeque<u8>>,
    pub ended: std::cell::Cell<bool>,
    pub waker: RefCell<Option<std::task::Waker>>,
}

pub struct HStream(pub Rc<StreamSh>);

impl futures::Stream for HStream {
    type Item = u8;
    fn poll_next(self: std::pin::Pin<&mut Self>, cx: &mut std::task::Context<'_>) -> std::task::Poll<Option<u8>> {
        if let Some(v) = self.0.q.borrow_mut().pop_front() {
            std::task::Poll::Ready(Some(v))
        } else if self.0.ended.get() {
            std::task::Poll::Ready(None)
        } else {
            *self.0.waker.borrow_mut() = Some(cx.waker().clone());
            std::task::Poll::Pending
        }
    }
}

/// Shared reference to a harness-owned eventfd usable as the `F` of `Generic<F>`.
#[derive(Debug)]
/// A descriptor number far beyond RLIMIT_NOFILE: never open, every syscall on it gives EBADF.
pub struct BadFd;
impl std::os::fd::AsFd for BadFd {
    fn as_fd(&self) -> std::os::fd::BorrowedFd<'_> {
        unsafe { std::os::fd::BorrowedFd::borrow_raw(1_000_000) }
    }
}

pub struct FdRef(pub Rc<OwnedFd>);
impl std::os::fd::AsFd for FdRef {
    fn as_fd(&self) -> std::os::fd::BorrowedFd<'_> {
        (*self.0).as_fd()
    }
}

thread_local! {
    static MASKS: RefCell<Option<Rc<epoll::Masks>>> = RefCell::new(None);
}

fn masks() -> Rc<epoll::Masks> {
    MASKS.with(|m| {
        m.borrow_mut()
            .get_or_insert_with(|| Rc::new(epoll::Masks::calibrate()))
            .clone()
    })
}

/// Run one history under the thread-local tape.
pub fn run_history(cfg: &Rc<Cfg>, verbose: bool) -> (Outcome, Option<Vec<String>>) {
    seqhooks::reset();
    let mut el: EventLoop<'static, Ctx> = EventLoop::try_new().expect("event loop");
    let epfd = el.as_raw_fd();
    let mut ctx = Ctx {
        h: el.handle(),
        cfg: cfg.clone(),
        m: vec![],
        rt: vec![],
        epfd,
        in_dispatch: false,
        cur: vec![],
        depth_used: 0,
        violations: vec![],
        decoded: vec![],
        obs: std::collections::hash_map::DefaultHasher::new(),
        transitions: 0,
        callbacks: 0,
        deviated: false,
        clauses: vec![],
        verbose: if verbose { Some(vec![]) } else { None },
        now_at_poll: 0,
        masks: masks(),
        poisoned: false,
        last_top: None,
        idles: vec![],
        teardown: false,
        cb_self_req: false,
        bad_adapt_done: false,
        dup_fault_seen: false,
        dispatch_no: 0,
        pending_efd: None,
        pending_stream: None,
        ever_rearmed_in_batch: false,
        last_fired_deadline: None,
        dispatch_timeout: None,
        now_at_dispatch: 0,
    };
    let initial = if cfg.initial_sets.len() > 1 {
        let c = explore::choose(cfg.initial_sets.len() as u32, Kind::Free);
        ctx.decoded.push(format!("initial {:?}", cfg.initial_sets[c as usize]));
        cfg.initial_sets[c as usize].clone()
    } else if cfg.initial_sets.len() == 1 {
        cfg.initial_sets[0].clone()
    } else {
        cfg.initial.clone()
    };
    for &k in &initial {
        ctx.insert(k);
        if k == KindSpec::Exec {
            let j = ctx.m.len() - 1;
            for _ in 0..cfg.exec_initial_pending {
                ctx.apply(Op::SchedulePending(j));
            }
        }
    }
    ctx.after_step();

    loop {
        let menu = ctx.top_menu();
        let c = explore::choose(menu.len() as u32 + 1, Kind::Top);
        if c == 0 {
            break;
        }
        let op = menu[c as usize - 1];
        ctx.depth_used += 1;
        ctx.decoded.push(format!("{op:?}"));
        ctx.note(format!("op {op:?}"));
        if !step(&mut el, &mut ctx, op) {
            break;
        }
    }
    // the state the history ended in (extensions start from here)
    let fp_at_end = if ctx.poisoned { None } else { Some(ctx.fingerprint(cfg.prune)) };
    // closing dispatches (flush)
    for _ in 0..cfg.final_dispatches {
        if ctx.poisoned {
            break;
        }
        if !step(&mut el, &mut ctx, Op::Dispatch) {
            break;
        }
    }
    // drop the loop and every handle: everything still inserted is released exactly once
    let fp = if ctx.poisoned { None } else { fp_at_end };
    // teardown: a pending task that owns an adapter keeps the loop alive (documented cycle);
    // closing its peer lets it finish, which drops the adapter
    if ctx.m.iter().any(|a| a.spec == KindSpec::ExecIo) && !ctx.poisoned {
        ctx.teardown = true;
        for (i, r) in ctx.rt.iter_mut().enumerate() {
            if ctx.m[i].spec == KindSpec::ExecIo {
                r.peer.take();
                if ctx.m[i].alive && !ctx.m[i].enabled {
                    if let Some(t) = r.token {
                        let _ = ctx.h.enable(&t);
                    }
                }
            }
        }
        for _ in 0..6 {
            let _ = catch_unwind(AssertUnwindSafe(|| el.dispatch(Some(Duration::ZERO), &mut ctx)));
        }
    }
    let end_order = if cfg.end_order_choice && !ctx.poisoned { explore::choose(2, Kind::Free) } else { 0 };
    if end_order == 1 {
        ctx.decoded.push("end: sources and handles dropped before the loop".into());
    }
    let epfd = ctx.epfd;
    let Ctx {
        h, m, mut rt, mut violations, dup_fault_seen, decoded, obs, transitions, callbacks, deviated, clauses, verbose, depth_used, poisoned, ..
    } = ctx;
    if end_order == 1 {
        // everything the harness holds goes first, the loop last
        for r in rt.iter_mut() {
            r.adapter.take();
            r.timer.take();
            r.fdd.take();
            r.pings.clear();
            r.senders.clear();
            r.sync_senders.clear();
            r.sched.take();
            r.released.take();
        }
    }
    // an Async adapter is itself a handle to the loop (it keeps the loop's inner state alive)
    for r in rt.iter_mut() {
        r.adapter.take();
    }
    drop(h);
    drop(el);
    if cfg.check_release && !poisoned {
        for (i, r) in rt.iter().enumerate() {
            if m[i].spec == KindSpec::Async {
                continue;
            }
            let held = r.timer.is_some() || r.fdd.is_some();
            let (sd, cd) = (r.track.src_dropped.get(), r.track.cb_dropped.get());
            // whatever the harness still holds through a Dispatcher cannot have been dropped yet
            let expect = if held { 0 } else { 1 };
            if sd != expect || cd != expect {
                let mut features = BTreeMap::new();
                features.insert("kind".to_string(), m[i].spec.name().to_string());
                violations.push(Violation {
                    props: vec!["C06".into()],
                    clause: "release-at-loop-drop".into(),
                    features,
                    message: format!(
                        "after dropping the loop and its handles actor {i} ({}) has source drops={sd} callback drops={cd}, expected {expect}",
                        m[i].spec.name()
                    ),
                    tape: vec![],
                    decoded: vec![],
                });
            }
        }
    }
    drop(rt);
    if dup_fault_seen {
        for v in violations.iter_mut() {
            if v.clause.starts_with("epoll-") && !v.props.iter().any(|p| p == "C15") {
                v.props.push("C15".to_string());
            }
        }
    }
    // Everything this execution created has been dropped. If the loop's epoll fd is still open the
    // loop, or something it owned, was leaked (a reference cycle through something the subject
    // failed to release). Nothing reachable refers to those descriptors any more; they are
    // closed by hand so that thousands of such executions end in verdicts rather than in EMFILE.
    let mut leaked = Vec::new();
    for fd in epfd..epfd + 96 {
        if unsafe { libc::fcntl(fd, libc::F_GETFD) } >= 0 {
            leaked.push(fd);
            unsafe { libc::close(fd) };
        }
    }
    if !leaked.is_empty() && cfg.check_release && !poisoned {
        let mut props = vec!["C06".to_string()];
        if m.iter().any(|a| matches!(a.spec, KindSpec::Exec | KindSpec::ExecIo)) {
            props.push("C10".to_string());
        }
        let mut features = BTreeMap::new();
        features.insert("loop_itself".to_string(), leaked.contains(&epfd).to_string());
        violations.push(Violation {
            props,
            clause: "descriptors-leaked-at-drop".into(),
            features,
            message: format!(
                "after dropping the loop, every handle and everything the harness held, descriptors {leaked:?} created by this execution are still open (loop epoll fd is {epfd}): something the loop owned is kept alive by a reference cycle"
            ),
            tape: vec![],
            decoded: vec![],
        });
    }
    if let Some(tag) = cfg.tag_all {
        for v in violations.iter_mut() {
            if !v.props.iter().any(|p| p == tag) {
                v.props.push(tag.to_string());
            }
        }
    }
    let out = Outcome {
        violations,
        fingerprint: fp,
        observation: obs.finish(),
        nontrivial: callbacks > 0 && deviated,
        transitions,
        depth_used,
        clauses,
        decoded,
        callbacks,
    };
    (out, verbose)
}

fn step(el: &mut EventLoop<'static, Ctx>, ctx: &mut Ctx, op: Op) -> bool {
    match op {
        Op::Dispatch | Op::DispatchWait | Op::DispatchShort | Op::DispatchNone => {
            ctx.transitions += 1;
            ctx.last_top = None;
            let timeout = match op {
                Op::Dispatch => Some(Duration::ZERO),
                Op::DispatchWait => Some(Duration::from_nanos(10 * STEP_NS)),
                Op::DispatchShort => Some(Duration::from_nanos(STEP_NS / 2)),
                _ => None,
            };
            ctx.dispatch_timeout = timeout;
            ctx.pre_dispatch();
            let _ = seqhooks::take_waits();
            let pending_before = ctx.kernel_pending();
            let expect_req = ctx.expected_wait(timeout);
            let r = catch_unwind(AssertUnwindSafe(|| el.dispatch(timeout, ctx)));
            let waits = seqhooks::take_waits();
            ctx.now_at_poll = seqhooks::now_ns();
            match r {
                Ok(Ok(())) => {
                    ctx.log("dispatch ok".into());
                    if ctx.cfg.check_wait {
                        ctx.check_wait(timeout, expect_req, pending_before, &waits);
                    }
                    ctx.post_dispatch(true, &waits);
                }
                Ok(Err(e)) => {
                    ctx.log(format!("dispatch err {e}"));
                    ctx.violate(&["C15", "C08"], "dispatch-error", &[],
                        format!("dispatch returned an error although no source failed: {e}"));
                    ctx.post_dispatch(false, &waits);
                }
                Err(p) => {
                    let msg = p
                        .downcast_ref::<String>()
                        .cloned()
                        .or_else(|| p.downcast_ref::<&str>().map(|s| s.to_string()))
                        .unwrap_or_else(|| "panic".into());
                    ctx.in_dispatch = false;
                    ctx.cur.clear();
                    ctx.poisoned = true;
                    ctx.violate(&["C08", "C15"], "panic-in-dispatch", &[],
                        format!("dispatch panicked: {msg}"));
                    return false;
                }
            }
        }
        other => {
            ctx.last_top = Some(other);
            let r = catch_unwind(AssertUnwindSafe(|| ctx.apply(other)));
            if let Err(p) = r {
                let msg = p
                    .downcast_ref::<String>()
                    .cloned()
                    .or_else(|| p.downcast_ref::<&str>().map(|s| s.to_string()))
                    .unwrap_or_else(|| "panic".into());
                ctx.poisoned = true;
                ctx.violate(&["C08", "C15"], "panic-in-operation", &[], format!("{other:?} panicked: {msg}"));
                return false;
            }
        }
    }
    ctx.after_step();
    true
}
