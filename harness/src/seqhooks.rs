//! Hooks for the sequential engine: a virtual clock and a wait seam that never sleeps.
//!
//! `now()` = BASE + CLOCK_NS. The clock only moves when the harness advances it or when the
//! wait seam "sleeps": if the epoll fd is not readable, the seam advances the clock by the
//! requested timeout (or records "would block for ever" for `None`) and lets calloop do a
//! zero-timeout wait.

use std::sync::atomic::{AtomicBool, AtomicU64, Ordering};
use std::sync::{Arc, Mutex, OnceLock};
use std::time::{Duration, Instant};

static BASE: OnceLock<Instant> = OnceLock::new();
static CLOCK_NS: AtomicU64 = AtomicU64::new(0);
static WAITS: Mutex<Vec<WaitRec>> = Mutex::new(Vec::new());
static BATCH_CHANNEL: AtomicU64 = AtomicU64::new(0);
static BATCH_EXEC: AtomicU64 = AtomicU64::new(0);
static FREEZE: AtomicBool = AtomicBool::new(true);

#[derive(Clone, Debug, PartialEq, Eq)]
pub struct WaitRec {
    pub requested: Option<Duration>,
    pub readable: bool,
    pub slept: Option<Duration>,
    pub would_block_forever: bool,
}

pub fn base() -> Instant {
    // leave head-room so that "past" deadlines are representable
    *BASE.get_or_init(|| Instant::now() + Duration::from_secs(1000))
}

pub fn now() -> Instant {
    base() + Duration::from_nanos(CLOCK_NS.load(Ordering::SeqCst))
}

pub fn now_ns() -> u64 {
    CLOCK_NS.load(Ordering::SeqCst)
}

pub fn set_ns(ns: u64) {
    CLOCK_NS.store(ns, Ordering::SeqCst)
}

pub fn advance(d: Duration) {
    CLOCK_NS.fetch_add(d.as_nanos() as u64, Ordering::SeqCst);
}

pub fn reset() {
    CLOCK_NS.store(0, Ordering::SeqCst);
    WAITS.lock().unwrap().clear();
    BATCH_CHANNEL.store(0, Ordering::SeqCst);
    BATCH_EXEC.store(0, Ordering::SeqCst);
    FREEZE.store(true, Ordering::SeqCst);
}

pub fn set_batch_limits(channel: u64, exec: u64) {
    BATCH_CHANNEL.store(channel, Ordering::SeqCst);
    BATCH_EXEC.store(exec, Ordering::SeqCst);
}

pub fn take_waits() -> Vec<WaitRec> {
    std::mem::take(&mut *WAITS.lock().unwrap())
}

/// Non-consuming readiness probe of the epoll fd.
pub fn fd_readable(fd: i32) -> bool {
    let mut p = libc::pollfd {
        fd,
        events: libc::POLLIN,
        revents: 0,
    };
    let r = unsafe { libc::poll(&mut p, 1, 0) };
    r > 0 && (p.revents & libc::POLLIN) != 0
}

pub struct SeqHooks;

impl calloop::verif::Hooks for SeqHooks {
    fn now(&self) -> Option<Instant> {
        Some(now())
    }

    fn before_wait(&self, poller_fd: i32, timeout: Option<Duration>) -> Option<Duration> {
        let readable = fd_readable(poller_fd);
        let mut rec = WaitRec {
            requested: timeout,
            readable,
            slept: None,
            would_block_forever: false,
        };
        if !readable {
            match timeout {
                Some(d) if d > Duration::ZERO => {
                    advance(d);
                    rec.slept = Some(d);
                }
                Some(_) => {}
                None => rec.would_block_forever = true,
            }
        }
        WAITS.lock().unwrap().push(rec);
        Some(Duration::ZERO)
    }

    fn batch_limit(&self, which: &'static str, default: usize) -> usize {
        let v = match which {
            "channel" => BATCH_CHANNEL.load(Ordering::SeqCst),
            "executor" => BATCH_EXEC.load(Ordering::SeqCst),
            _ => 0,
        };
        if v == 0 {
            default
        } else {
            (v as usize).min(default)
        }
    }
}

pub fn install() {
    let _ = base();
    calloop::verif::install(Some(Arc::new(SeqHooks)));
}
