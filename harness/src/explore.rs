//! Choice-tape explorer: stateless (re-execution based) bounded-exhaustive search.
//!
//! An execution is a deterministic function of its *tape*: the sequence of answers given
//! at the choice points it meets. A run is started with a prefix of answers; every choice
//! point after the prefix answers 0 (the default). After the run, every choice point at
//! index >= |prefix| spawns its alternatives as new prefixes. Alternatives of a `Dev`
//! choice cost one deviation; work items whose cost exceeds the current level are parked
//! for the next level, so level B is completed before level B+1 starts (iterative
//! deviation bounding). `Top` choices (which top-level operation next; 0 = end of history)
//! are free, bounded by the driver's own depth limit.
//!
//! Optional state-hash pruning: when a run ends (its last choice is the `Top` choice that
//! answered "end"), the driver reports a fingerprint of the complete state. Extensions of
//! that history are not explored if the same fingerprint was already expanded with at least
//! as much remaining depth and remaining deviation budget.

use std::collections::{BTreeMap, HashMap, HashSet};
use std::hash::{Hash, Hasher};
use std::time::Instant;

use serde::Serialize;

#[derive(Clone, Copy, Debug, PartialEq, Eq)]
pub enum Kind {
    /// Top-level operation choice; 0 = end the history. Free.
    Top,
    /// Deviation from default behaviour; a non-zero answer costs 1.
    Dev,
    /// Free environment choice that is not a top-level operation.
    Free,
}

#[derive(Clone, Copy, Debug)]
pub struct Rec {
    pub n: u32,
    pub c: u32,
    pub kind: Kind,
}

#[derive(Debug, Default)]
pub struct Tape {
    pub prefix: Vec<u32>,
    pub log: Vec<Rec>,
    /// set when the prefix asked for an answer outside the menu: machinery error
    pub diverged: Option<String>,
}

impl Tape {
    pub fn new(prefix: Vec<u32>) -> Tape {
        Tape {
            prefix,
            log: Vec::new(),
            diverged: None,
        }
    }

    pub fn choose(&mut self, n: u32, kind: Kind) -> u32 {
        assert!(n >= 1);
        let i = self.log.len();
        let c = if i < self.prefix.len() {
            let c = self.prefix[i];
            if c >= n {
                if self.diverged.is_none() {
                    self.diverged = Some(format!(
                        "replayed choice #{i} = {c} but menu has only {n} entries"
                    ));
                }
                0
            } else {
                c
            }
        } else {
            0
        };
        self.log.push(Rec { n, c, kind });
        c
    }

    pub fn choices(&self) -> Vec<u32> {
        self.log.iter().map(|r| r.c).collect()
    }

    pub fn deviations(&self) -> u32 {
        self.log
            .iter()
            .filter(|r| r.kind == Kind::Dev && r.c != 0)
            .count() as u32
    }
}

thread_local! {
    pub static TAPE: std::cell::RefCell<Tape> = std::cell::RefCell::new(Tape::default());
}

/// Convenience accessors on the thread-local tape (sequential engines).
pub fn choose(n: u32, kind: Kind) -> u32 {
    TAPE.with(|t| t.borrow_mut().choose(n, kind))
}

#[derive(Clone, Debug, Serialize)]
pub struct Violation {
    /// properties this violation counts against
    pub props: Vec<String>,
    pub clause: String,
    /// small feature map used to match known findings narrowly
    pub features: BTreeMap<String, String>,
    pub message: String,
    pub tape: Vec<u32>,
    pub decoded: Vec<String>,
}

impl Violation {
    pub fn signature(&self) -> String {
        let mut s = format!("{}|{}", self.props.join(","), self.clause);
        for (k, v) in &self.features {
            s.push_str(&format!("|{k}={v}"));
        }
        s
    }
}

#[derive(Default, Debug)]
pub struct Outcome {
    pub violations: Vec<Violation>,
    /// fingerprint of the complete final state (None = no pruning for this run)
    pub fingerprint: Option<u64>,
    /// hash of the observation log (distinct outcomes)
    pub observation: u64,
    /// a callback ran and at least one deviation / fault / alternative took effect
    pub nontrivial: bool,
    pub transitions: u64,
    pub depth_used: u32,
    /// oracle clauses exercised in this run
    pub clauses: Vec<&'static str>,
    pub decoded: Vec<String>,
    pub callbacks: u64,
}

pub struct Config {
    pub max_dev: u32,
    pub max_depth: u32,
    pub shard: (u32, u32),
    pub shard_depth: usize,
    pub wall_cap_s: f64,
    pub exec_cap: u64,
    pub prune: bool,
    pub n_samples: usize,
    pub seed: u64,
}

#[derive(Serialize, Default, Debug)]
pub struct Report {
    pub driver: String,
    pub executions: u64,
    pub states: u64,
    pub transitions: u64,
    pub distinct_outcomes: u64,
    pub distinct_nontrivial: u64,
    pub callbacks: u64,
    pub pruned: u64,
    pub levels_completed: Vec<u32>,
    pub level_executions: Vec<u64>,
    pub exhaustive: bool,
    pub cap_hit: Option<String>,
    pub max_dev: u32,
    pub max_depth: u32,
    pub clause_counts: BTreeMap<String, u64>,
    pub violations: Vec<Violation>,
    pub violation_count: u64,
    pub samples: Vec<serde_json::Value>,
    pub machinery_errors: Vec<String>,
    pub wall_s: f64,
    pub extra: BTreeMap<String, serde_json::Value>,
}

fn hash_prefix(p: &[u32]) -> u64 {
    let mut h = std::collections::hash_map::DefaultHasher::new();
    p.hash(&mut h);
    h.finish()
}

pub fn fxhash<T: Hash>(t: &T) -> u64 {
    let mut h = std::collections::hash_map::DefaultHasher::new();
    t.hash(&mut h);
    h.finish()
}

/// Explore all tapes. `run` executes one tape and reports its outcome.
pub fn explore<F>(name: &str, cfg: &Config, mut run: F) -> Report
where
    F: FnMut(&mut Tape) -> Outcome,
{
    let start = Instant::now();
    let mut rep = Report {
        driver: name.to_string(),
        max_dev: cfg.max_dev,
        max_depth: cfg.max_depth,
        exhaustive: true,
        ..Default::default()
    };
    let mut outcomes: HashSet<u64> = HashSet::new();
    let mut nontrivial: HashSet<u64> = HashSet::new();
    let mut states: HashSet<u64> = HashSet::new();
    // fingerprint -> list of (depth_remaining, dev_remaining) already expanded
    let mut expanded: HashMap<u64, Vec<(u32, u32)>> = HashMap::new();
    let mut seen_sigs: HashMap<String, usize> = HashMap::new();
    let (shard, nshards) = cfg.shard;

    // work items: (prefix, cost)
    let mut level_items: Vec<(Vec<u32>, u32)> = vec![(vec![], 0)];
    let mut next_items: Vec<(Vec<u32>, u32)> = Vec::new();
    let mut sample_stride = 1u64;

    'levels: for level in 0..=cfg.max_dev {
        // breadth-first within a level (shorter histories first): a state is then first expanded
        // with the largest remaining depth, which makes the dominance pruning effective
        let mut stack: std::collections::VecDeque<(Vec<u32>, u32)> =
            std::mem::take(&mut level_items).into_iter().collect();
        let mut level_execs = 0u64;
        while let Some((prefix, cost)) = if cfg.prune { stack.pop_front() } else { stack.pop_back() } {
            // sharding: sub-trees are owned by the hash of their first `shard_depth` choices
            let owned = if prefix.len() >= cfg.shard_depth {
                hash_prefix(&prefix[..cfg.shard_depth]) % (nshards as u64) == shard as u64
            } else {
                true
            };
            if !owned {
                continue;
            }
            let counted = prefix.len() >= cfg.shard_depth || shard == 0;

            let mut tape = Tape::new(prefix);
            let out = run(&mut tape);
            if let Some(d) = tape.diverged.take() {
                rep.machinery_errors
                    .push(format!("divergent replay of {:?}: {d}", tape.prefix));
                rep.exhaustive = false;
                break 'levels;
            }
            if counted {
                rep.executions += 1;
                level_execs += 1;
                rep.transitions += out.transitions;
                rep.callbacks += out.callbacks;
                outcomes.insert(out.observation);
                if out.nontrivial {
                    nontrivial.insert(out.observation);
                }
                for c in &out.clauses {
                    *rep.clause_counts.entry(c.to_string()).or_insert(0) += 1;
                }
                if let Some(fp) = out.fingerprint {
                    states.insert(fp);
                }
                if rep.samples.len() < cfg.n_samples
                    && (rep.executions + cfg.seed) % sample_stride == 0
                    && out.callbacks > 0
                {
                    rep.samples.push(serde_json::json!({
                        "tape": tape.choices(),
                        "ops": out.decoded,
                        "deviations": tape.deviations(),
                    }));
                    sample_stride = sample_stride.saturating_mul(7);
                }
                for v in out.violations {
                    rep.violation_count += 1;
                    let sig = v.signature();
                    match seen_sigs.get(&sig) {
                        Some(&idx) => {
                            if v.tape.len() < rep.violations[idx].tape.len() {
                                rep.violations[idx] = v;
                            }
                        }
                        None => {
                            if rep.violations.len() < 200 {
                                seen_sigs.insert(sig, rep.violations.len());
                                rep.violations.push(v);
                            }
                        }
                    }
                }
            }

            // expand alternatives
            let plen = tape.prefix.len();
            let log = &tape.log;
            let mut devs_before: u32 = log[..plen.min(log.len())]
                .iter()
                .filter(|r| r.kind == Kind::Dev && r.c != 0)
                .count() as u32;
            debug_assert!(plen > log.len() || devs_before == cost || plen == 0 || true);
            // the choice that ended the history: the last top-level choice of the run
            let last = log.iter().rposition(|r| r.kind == Kind::Top).unwrap_or(usize::MAX);
            for i in plen..log.len() {
                let r = log[i];
                if r.n > 1 {
                    let mut skip = false;
                    if cfg.prune && r.kind == Kind::Top && i == last {
                        if let Some(fp) = out.fingerprint {
                            let depth_rem = cfg.max_depth.saturating_sub(out.depth_used);
                            let dev_rem = cfg.max_dev - devs_before;
                            let e = expanded.entry(fp).or_default();
                            if e.iter().any(|&(d, b)| d >= depth_rem && b >= dev_rem) {
                                skip = true;
                                rep.pruned += 1;
                            } else {
                                e.retain(|&(d, b)| !(depth_rem >= d && dev_rem >= b));
                                e.push((depth_rem, dev_rem));
                            }
                        }
                    }
                    if !skip {
                        let add = if r.kind == Kind::Dev { 1 } else { 0 };
                        let new_cost = devs_before + add;
                        if new_cost <= cfg.max_dev {
                            for alt in (1..r.n).rev() {
                                let mut p: Vec<u32> = log[..i].iter().map(|r| r.c).collect();
                                p.push(alt);
                                if new_cost <= level {
                                    stack.push_back((p, new_cost));
                                } else {
                                    next_items.push((p, new_cost));
                                }
                            }
                        }
                    }
                }
                if r.kind == Kind::Dev && r.c != 0 {
                    devs_before += 1;
                }
            }

            if rep.executions % 256 == 0 {
                let el = start.elapsed().as_secs_f64();
                if el > cfg.wall_cap_s {
                    rep.cap_hit = Some(format!("wall cap {}s during level {}", cfg.wall_cap_s, level));
                    rep.exhaustive = false;
                    rep.level_executions.push(level_execs);
                    break 'levels;
                }
                if rep.executions > cfg.exec_cap {
                    rep.cap_hit = Some(format!("execution cap {} during level {}", cfg.exec_cap, level));
                    rep.exhaustive = false;
                    rep.level_executions.push(level_execs);
                    break 'levels;
                }
            }
        }
        rep.levels_completed.push(level);
        rep.level_executions.push(level_execs);
        level_items = std::mem::take(&mut next_items);
        if level_items.is_empty() {
            // nothing left at higher levels: all levels up to max_dev are trivially complete
            for l in (level + 1)..=cfg.max_dev {
                rep.levels_completed.push(l);
                rep.level_executions.push(0);
            }
            break;
        }
    }
    rep.states = states.len() as u64;
    rep.distinct_outcomes = outcomes.len() as u64;
    rep.distinct_nontrivial = nontrivial.len() as u64;
    rep.wall_s = start.elapsed().as_secs_f64();
    rep
}
