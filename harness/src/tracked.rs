//! `Tracked<S>`: a transparent wrapper around a real calloop source that counts registration
//! calls, marks `process_events` boundaries and records its own drop.

use std::cell::Cell;
use std::rc::Rc;

use calloop::{EventSource, Poll, PostAction, Readiness, Token, TokenFactory};

#[derive(Default, Debug)]
pub struct Track {
    /// number of `process_events` calls started so far
    pub pe_seq: Cell<u32>,
    /// number of `process_events` calls started while the source was registered
    pub pe_reg_seq: Cell<u32>,
    pub in_pe: Cell<bool>,
    pub reg: Cell<u32>,
    pub rereg: Cell<u32>,
    pub unreg: Cell<u32>,
    pub reg_err: Cell<u32>,
    /// registered according to the calls seen (register ok => true, unregister ok => false)
    pub registered: Cell<bool>,
    /// protocol errors: register while registered / unregister while unregistered
    pub double_reg: Cell<u32>,
    pub double_unreg: Cell<u32>,
    pub src_dropped: Cell<u32>,
    pub cb_dropped: Cell<u32>,
    pub dropped_while_registered: Cell<u32>,
    pub before_sleep: Cell<u32>,
    pub before_handle: Cell<u32>,
}

impl Track {
    pub fn new() -> Rc<Track> {
        Rc::new(Track::default())
    }
    pub fn counters(&self) -> [u32; 6] {
        [
            self.reg.get(),
            self.rereg.get(),
            self.unreg.get(),
            self.src_dropped.get(),
            self.cb_dropped.get(),
            self.pe_seq.get(),
        ]
    }
}

fn bump(c: &Cell<u32>) {
    c.set(c.get() + 1)
}

pub struct Tracked<S> {
    pub inner: S,
    pub track: Rc<Track>,
}

impl<S> Tracked<S> {
    pub fn new(inner: S, track: Rc<Track>) -> Self {
        Tracked { inner, track }
    }
}

impl<S> Drop for Tracked<S> {
    fn drop(&mut self) {
        bump(&self.track.src_dropped);
        if self.track.registered.get() {
            bump(&self.track.dropped_while_registered);
        }
    }
}

/// Dropped together with the callback closure that captured it.
pub struct CbGuard(pub Rc<Track>);
impl Drop for CbGuard {
    fn drop(&mut self) {
        bump(&self.0.cb_dropped);
    }
}

impl<S: EventSource> EventSource for Tracked<S> {
    type Event = S::Event;
    type Metadata = S::Metadata;
    type Ret = S::Ret;
    type Error = S::Error;

    fn process_events<F>(
        &mut self,
        readiness: Readiness,
        token: Token,
        callback: F,
    ) -> Result<PostAction, Self::Error>
    where
        F: FnMut(Self::Event, &mut Self::Metadata) -> Self::Ret,
    {
        bump(&self.track.pe_seq);
        if self.track.registered.get() {
            bump(&self.track.pe_reg_seq);
        }
        self.track.in_pe.set(true);
        let r = self.inner.process_events(readiness, token, callback);
        self.track.in_pe.set(false);
        r
    }

    fn register(&mut self, poll: &mut Poll, tf: &mut TokenFactory) -> calloop::Result<()> {
        bump(&self.track.reg);
        let r = self.inner.register(poll, tf);
        if r.is_ok() {
            if self.track.registered.get() {
                bump(&self.track.double_reg);
            }
            self.track.registered.set(true);
        } else {
            bump(&self.track.reg_err);
        }
        r
    }

    fn reregister(&mut self, poll: &mut Poll, tf: &mut TokenFactory) -> calloop::Result<()> {
        bump(&self.track.rereg);
        let r = self.inner.reregister(poll, tf);
        if r.is_err() {
            bump(&self.track.reg_err);
        }
        r
    }

    fn unregister(&mut self, poll: &mut Poll) -> calloop::Result<()> {
        bump(&self.track.unreg);
        let r = self.inner.unregister(poll);
        if r.is_ok() {
            if !self.track.registered.get() {
                bump(&self.track.double_unreg);
            }
            self.track.registered.set(false);
        } else {
            bump(&self.track.reg_err);
        }
        r
    }

    const NEEDS_EXTRA_LIFECYCLE_EVENTS: bool = S::NEEDS_EXTRA_LIFECYCLE_EVENTS;

    fn before_sleep(&mut self) -> calloop::Result<Option<(Readiness, Token)>> {
        bump(&self.track.before_sleep);
        self.inner.before_sleep()
    }

    fn before_handle_events(&mut self, events: calloop::EventIterator<'_>) {
        bump(&self.track.before_handle);
        self.inner.before_handle_events(events)
    }
}
