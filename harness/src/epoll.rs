//! Observation of the kernel side: the epoll interest list via /proc/self/fdinfo.

use std::collections::BTreeMap;
use std::os::fd::{AsRawFd, OwnedFd};

use calloop::{Interest, Mode};

#[derive(Clone, Copy, Debug, PartialEq, Eq, PartialOrd, Ord, Hash)]
pub struct Entry {
    pub fd: i32,
    pub events: u32,
    pub data: u64,
}

/// All entries of the interest list, including the poller's own (data = u64::MAX).
pub fn table_raw(epfd: i32) -> Vec<Entry> {
    let s = std::fs::read_to_string(format!("/proc/self/fdinfo/{epfd}"))
        .expect("cannot read epoll fdinfo");
    let mut v = Vec::new();
    for line in s.lines() {
        if let Some(rest) = line.strip_prefix("tfd:") {
            let mut fd = None;
            let mut events = None;
            let mut data = None;
            let toks: Vec<&str> = rest.split_whitespace().collect();
            let mut i = 0;
            if !toks.is_empty() {
                fd = toks[0].parse::<i32>().ok();
                i = 1;
            }
            while i + 1 < toks.len() {
                match toks[i] {
                    "events:" => events = u32::from_str_radix(toks[i + 1], 16).ok(),
                    "data:" => data = u64::from_str_radix(toks[i + 1], 16).ok(),
                    _ => {}
                }
                i += 2;
            }
            v.push(Entry {
                fd: fd.expect("fdinfo tfd"),
                events: events.expect("fdinfo events"),
                data: data.expect("fdinfo data"),
            });
        }
    }
    v.sort();
    v
}

/// Entries registered by calloop (the poller's internal notifier/timer entries removed).
pub fn table(epfd: i32) -> Vec<Entry> {
    table_raw(epfd)
        .into_iter()
        .filter(|e| e.data != u64::MAX)
        .collect()
}

pub fn eventfd() -> OwnedFd {
    use std::os::fd::FromRawFd;
    let fd = unsafe { libc::eventfd(0, libc::EFD_CLOEXEC | libc::EFD_NONBLOCK) };
    assert!(fd >= 0, "eventfd failed");
    unsafe { OwnedFd::from_raw_fd(fd) }
}

pub fn eventfd_write(fd: i32, v: u64) -> bool {
    let b = v.to_ne_bytes();
    let r = unsafe { libc::write(fd, b.as_ptr() as *const _, 8) };
    r == 8
}

pub fn eventfd_read(fd: i32) -> Option<u64> {
    let mut b = [0u8; 8];
    let r = unsafe { libc::read(fd, b.as_mut_ptr() as *mut _, 8) };
    if r == 8 {
        Some(u64::from_ne_bytes(b))
    } else {
        None
    }
}

fn mode_idx(m: Mode) -> u8 {
    match m {
        Mode::Level => 0,
        Mode::Edge => 1,
        Mode::OneShot => 2,
    }
}

/// Expected `events` mask for each (readable, writable, mode), calibrated at start-up through
/// the `polling` crate directly (scratch poller + scratch eventfd, then read its fdinfo) — not
/// through calloop, so a wrong interest/mode conversion in calloop cannot calibrate itself away,
/// and no kernel or `polling` constant is hard-coded here.
pub struct Masks {
    map: BTreeMap<(bool, bool, u8), u32>,
}

impl Masks {
    pub fn calibrate() -> Masks {
        use polling::{Event, PollMode, Poller};
        let mut map = BTreeMap::new();
        let poller = Poller::new().expect("scratch poller");
        let pfd = poller.as_raw_fd();
        for r in [false, true] {
            for w in [false, true] {
                for (mi, pm) in [(0u8, PollMode::Level), (1, PollMode::Edge), (2, PollMode::Oneshot)] {
                    let efd = eventfd();
                    // counter = max, and interest only decides bits: never fires for `none`
                    let mut ev = Event::none(7);
                    ev.readable = r;
                    ev.writable = w;
                    unsafe { poller.add_with_mode(efd.as_raw_fd(), ev, pm).expect("scratch add") };
                    let t = table(pfd);
                    assert_eq!(t.len(), 1, "calibration table");
                    map.insert((r, w, mi), t[0].events);
                    poller
                        .delete(unsafe { std::os::fd::BorrowedFd::borrow_raw(efd.as_raw_fd()) })
                        .expect("scratch delete");
                }
            }
        }
        Masks { map }
    }

    pub fn expected(&self, i: Interest, m: Mode) -> u32 {
        self.map[&(i.readable, i.writable, mode_idx(m))]
    }
}

/// Mask out the bits the kernel adds on its own (EPOLLERR|EPOLLHUP are implicit) so that the
/// comparison is about what was requested.
pub fn requested_bits(ev: u32) -> u32 {
    ev & !((libc::EPOLLERR | libc::EPOLLHUP) as u32)
}

/// A disarmed one-shot entry keeps only the mode bits (the kernel clears the event bits).
pub fn is_disarmed(ev: u32) -> bool {
    let evbits = (libc::EPOLLIN | libc::EPOLLOUT | libc::EPOLLPRI | libc::EPOLLRDHUP) as u32;
    ev & evbits == 0
}

pub fn raw(fd: &OwnedFd) -> i32 {
    fd.as_raw_fd()
}
