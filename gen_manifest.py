#!/usr/bin/env python3
"""Regenerates MANIFEST.json from checks_table.py + manifest_meta.py (keeps the manifest valid by construction)."""
import json, subprocess, os
from checks_table import TABLE
from manifest_meta import META, NOT_YET

ROOT = os.path.dirname(os.path.abspath(__file__))
props = [json.loads(l) for l in open(os.path.join(ROOT, "properties.jsonl"))]
ids = [p["id"] for p in props]
hook_commits = subprocess.run(["git", "-C", "/repo", "log", "--format=%h %s", "--grep=^verif"],
                              stdout=subprocess.PIPE, text=True).stdout.strip().splitlines()
checks = []
for pid in ids:
    if pid not in TABLE:
        continue
    e, m = TABLE[pid], META[pid]
    checks.append({
        "property_id": pid,
        "quick_cmd": f"./check {pid} quick",
        "thorough_cmd": f"./check {pid} thorough",
        "evidence_file": f"/verif/evidence/{pid}.json",
        "replay_cmd_template": "./check --replay {path}",
        "engine": m["engine"],
        "level_claimed": {"category": e["level"], "text": m["text"], "design_ref": m["design_ref"]},
        "level_note": m["note"],
        "technique": m["technique"],
    })
man = {
    "version": 1,
    "setup_cmd": "./setup.sh",
    "hooks": {
        "guard": "cargo feature `verif` of calloop",
        "enable": "the harness crate /verif/harness depends on calloop (path=/repo) with features verif,executor,block_on,signals,stream,futures-io; ./check rebuilds it from /repo's working tree",
        "baseline_off_cmd": "cd /repo && cargo test --workspace --no-fail-fast --offline",
        "source_commits": [c.split()[0] for c in hook_commits],
        "add_only": True,
    },
    "engines": [
        {"name": "S", "path": "/verif/harness/src/world.rs", "kind_free_text": "sequential history explorer: choice-tape re-execution DFS with iterative deviation bounding and state-hash pruning over the real EventLoop, judged step by step by a reference model/monitor; virtual clock and wait seam",
         "serves_properties": [p for p in ids if p in TABLE and META[p]["engine"] == "S"]},
        {"name": "T", "path": "/verif/harness/src/sched.rs", "kind_free_text": "CHESS-style controlled scheduler over real OS threads at hook yield points; iterative preemption bounding / exhaustive DFS",
         "serves_properties": [p for p in ids if p in TABLE and META[p]["engine"] == "T"]},
        {"name": "K", "path": "/verif/harness/src/drivers/keys.rs", "kind_free_text": "exhaustive enumeration of the key encoding domain",
         "serves_properties": [p for p in ids if p in TABLE and META[p]["engine"] == "K"]},
        {"name": "P", "path": "/verif/harness/src/bin/sigx.rs", "kind_free_text": "single-threaded process explorer for signal-mask histories",
         "serves_properties": [p for p in ids if p in TABLE and META[p]["engine"] == "P"]},
    ],
    "checks": checks,
    "not_applicable": [{"property_id": p, "reason": NOT_YET.get(p, "check not built yet; see DESIGN.md section 5 for the planned exploration")} for p in ids if p not in TABLE],
    "notes": "exit 0 = held (KNOWN-FINDING lines for entries of known_findings.json), 1 = VIOLATION, 2 = machinery failure (never a verdict). See DESIGN.md.",
}
json.dump(man, open(os.path.join(ROOT, "MANIFEST.json"), "w"), indent=1)
print("MANIFEST.json:", len(checks), "checks,", len(man["not_applicable"]), "not_applicable")
