//! D12 (open): a waker fired on another thread concurrently with Executor::drop can enqueue its
//! runnable after the drop's drain: the future is never dropped. Probabilistic here (threads race);
//! deterministic in `./check C10 quick` (driver exec-mt).
use calloop::futures::executor;
use calloop::EventLoop;
use std::sync::atomic::{AtomicUsize, Ordering};
use std::sync::{Arc, Mutex};
use std::task::{Context, Poll, Waker};
use std::time::Duration;

struct Fut {
    slot: Arc<Mutex<Option<Waker>>>,
    drops: Arc<AtomicUsize>,
}
impl std::future::Future for Fut {
    type Output = ();
    fn poll(self: std::pin::Pin<&mut Self>, cx: &mut Context<'_>) -> Poll<()> {
        *self.slot.lock().unwrap() = Some(cx.waker().clone());
        Poll::Pending
    }
}
impl Drop for Fut {
    fn drop(&mut self) {
        self.drops.fetch_add(1, Ordering::SeqCst);
    }
}

fn main() {
    let mut leaked = 0;
    let rounds = 3000;
    for _ in 0..rounds {
        let mut el: EventLoop<()> = EventLoop::try_new().unwrap();
        let (exec, sched) = executor::<()>().unwrap();
        let tok = el.handle().insert_source(exec, |_, _, _| {}).unwrap();
        let slot = Arc::new(Mutex::new(None));
        let drops = Arc::new(AtomicUsize::new(0));
        sched.schedule(Fut { slot: slot.clone(), drops: drops.clone() }).unwrap();
        el.dispatch(Some(Duration::ZERO), &mut ()).unwrap();
        let w: Waker = slot.lock().unwrap().take().unwrap();
        let t = std::thread::spawn(move || w.wake());
        el.handle().remove(tok); // drops the executor on the loop thread while the waker may run
        t.join().unwrap();
        if drops.load(Ordering::SeqCst) != 1 {
            leaked += 1;
        }
        drop(sched);
    }
    if leaked > 0 {
        println!("DEFECT: in {leaked} of {rounds} rounds the future was not dropped when the executor was dropped");
        std::process::exit(1);
    }
    println!("ok (race not hit in {rounds} rounds; see ./check C10 quick for the deterministic schedule)");
}
