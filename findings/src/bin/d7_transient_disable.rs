//! D7 (fixed a567995): a TransientSource child that returned Disable was unregistered again by every
//! later update()/disable() of its parent, which failed with ENOENT.
use calloop::ping::{make_ping, PingSource};
use calloop::transient::TransientSource;
use calloop::{EventLoop, EventSource, Poll, PostAction, Readiness, Token, TokenFactory};
struct Child(PingSource);
impl EventSource for Child {
    type Event = ();
    type Metadata = ();
    type Ret = ();
    type Error = Box<dyn std::error::Error + Sync + Send>;
    fn process_events<F: FnMut((), &mut ())>(&mut self, r: Readiness, t: Token, mut cb: F) -> Result<PostAction, Self::Error> {
        let mut hit = false;
        self.0.process_events(r, t, |(), m| { hit = true; cb((), m) })?;
        Ok(if hit { PostAction::Disable } else { PostAction::Continue })
    }
    fn register(&mut self, p: &mut Poll, f: &mut TokenFactory) -> calloop::Result<()> { self.0.register(p, f) }
    fn reregister(&mut self, p: &mut Poll, f: &mut TokenFactory) -> calloop::Result<()> { self.0.reregister(p, f) }
    fn unregister(&mut self, p: &mut Poll) -> calloop::Result<()> { self.0.unregister(p) }
}
fn main() {
    let mut el: EventLoop<()> = EventLoop::try_new().unwrap();
    let (ping, s) = make_ping().unwrap();
    let ts: TransientSource<Child> = Child(s).into();
    let tok = el.handle().insert_source(ts, |_, _, _| {}).unwrap();
    ping.ping();
    el.dispatch(Some(std::time::Duration::ZERO), &mut ()).unwrap();
    let mut bad = false;
    if let Err(e) = el.handle().update(&tok) { println!("DEFECT: update() of the parent failed: {e}"); bad = true; }
    if let Err(e) = el.handle().disable(&tok) { println!("DEFECT: disable() of the parent failed: {e}"); bad = true; }
    if bad { std::process::exit(1); }
    println!("ok");
}
