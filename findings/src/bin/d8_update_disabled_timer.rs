//! D8 (open): update() on a *disabled* Timer arms it: the callback fires while the source is disabled.
use calloop::timer::{TimeoutAction, Timer};
use calloop::EventLoop;
use std::time::Duration;

fn main() {
    let mut el: EventLoop<u32> = EventLoop::try_new().unwrap();
    let h = el.handle();
    let tok = h
        .insert_source(Timer::immediate(), |_, _, fired: &mut u32| {
            *fired += 1;
            TimeoutAction::Drop
        })
        .unwrap();
    h.disable(&tok).unwrap();
    let _ = h.update(&tok); // whatever it returns, the source is still disabled
    let mut fired = 0;
    el.dispatch(Some(Duration::ZERO), &mut fired).unwrap();
    if fired != 0 {
        println!("DEFECT: the disabled timer fired {fired} time(s) after update()");
        std::process::exit(1);
    }
    println!("ok: the disabled timer stayed silent");
}
