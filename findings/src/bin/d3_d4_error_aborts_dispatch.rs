//! D3/D4 (fixed 632f80f): an Err from a source's event processing (a) leaked its deferred disable()
//! request to another source and (b) dropped the rest of the batch: an expired timer never fired.
use calloop::generic::Generic;
use calloop::ping::make_ping;
use calloop::timer::{TimeoutAction, Timer};
use calloop::{EventLoop, Interest, LoopHandle, Mode, PostAction, RegistrationToken};
use std::io::Write;
use std::os::unix::net::UnixStream;
use std::time::Duration;
#[derive(Default)]
struct D { pings: u32, timer: u32, tok: Option<RegistrationToken>, h: Option<LoopHandle<'static, D>> }
fn main() {
    let mut el: EventLoop<'static, D> = EventLoop::try_new().unwrap();
    let h = el.handle();
    let (mut a, b) = UnixStream::pair().unwrap();
    a.write_all(b"x").unwrap();
    let tok = h.insert_source(Generic::new(b, Interest::READ, Mode::Level), |_, _, d: &mut D| {
        let (h, t) = (d.h.clone().unwrap(), d.tok.unwrap());
        h.disable(&t).unwrap(); // deferred: we are inside our own callback
        h.remove(t);
        Err(std::io::Error::new(std::io::ErrorKind::Other, "boom"))
    }).unwrap();
    let (ping, ps) = make_ping().unwrap();
    h.insert_source(ps, |_, _, d: &mut D| d.pings += 1).unwrap();
    h.insert_source(Timer::immediate(), |_, _, d: &mut D| { d.timer += 1; TimeoutAction::Drop }).unwrap();
    let mut d = D { tok: Some(tok), h: Some(h.clone()), ..Default::default() };
    let first = el.dispatch(Some(Duration::ZERO), &mut d);
    for _ in 0..2 { ping.ping(); el.dispatch(Some(Duration::ZERO), &mut d).unwrap(); }
    let _ = PostAction::Continue;
    let mut bad = false;
    if first.is_ok() { println!("DEFECT: the error was not reported"); bad = true; }
    if d.pings != 2 { println!("DEFECT: the ping source got {} of 2 events (a leaked Disable hit it)", d.pings); bad = true; }
    if d.timer != 1 { println!("DEFECT: the expired timer fired {} times (its event was dropped with the batch)", d.timer); bad = true; }
    if bad { std::process::exit(1); }
    println!("ok");
}
