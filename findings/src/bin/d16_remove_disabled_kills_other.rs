//! D16 (fixed): removing a *disabled* fd source deleted its fd from the poller a second time. If
//! another source had registered the same descriptor in the meantime, that source silently lost its
//! registration: no more events, and nothing reported an error.
use calloop::generic::{FdWrapper, Generic};
use calloop::{EventLoop, Interest, Mode, PostAction};
use std::io::Write;
use std::os::fd::AsRawFd;
use std::os::unix::net::UnixStream;
use std::time::Duration;

fn main() {
    let mut el: EventLoop<u32> = EventLoop::try_new().unwrap();
    let h = el.handle();
    let (mut tx, rx) = UnixStream::pair().unwrap();
    let fd = rx.as_raw_fd();
    // S1 watches the socket, then is disabled (its fd leaves the poller)
    let s1 = h
        .insert_source(Generic::new(unsafe { FdWrapper::new(fd) }, Interest::READ, Mode::Level), |_, _, _| Ok(PostAction::Continue))
        .unwrap();
    h.disable(&s1).unwrap();
    // S2 takes over the same descriptor
    let _s2 = h
        .insert_source(Generic::new(unsafe { FdWrapper::new(fd) }, Interest::READ, Mode::Level), |_, _, hits: &mut u32| {
            *hits += 1;
            Ok(PostAction::Continue)
        })
        .unwrap();
    // the disabled S1 is removed: this must not concern S2
    h.remove(s1);
    tx.write_all(b"x").unwrap();
    let mut hits = 0;
    el.dispatch(Some(Duration::from_millis(200)), &mut hits).unwrap();
    if hits == 0 {
        println!("DEFECT: removing the disabled source took the other source's fd out of the poller: no event for S2");
        std::process::exit(1);
    }
    println!("ok: S2 still receives its events after the disabled S1 was removed");
}
