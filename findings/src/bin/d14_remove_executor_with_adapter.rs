//! D14: LoopHandle::remove() of an executor whose pending future owns an Async adapter of the same
//! loop. remove() dropped the source while it still held the `sources` borrow; dropping the
//! executor drops the future, which drops the adapter, whose Drop needs `sources` mutably.
use calloop::futures::executor;
use calloop::EventLoop;
use std::os::unix::net::UnixStream;

fn main() {
    let mut el: EventLoop<()> = EventLoop::try_new().unwrap();
    let h = el.handle();
    let (exec, sched) = executor::<()>().unwrap();
    let tok = h.insert_source(exec, |_, _, _| {}).unwrap();
    let (a, _b) = UnixStream::pair().unwrap();
    let mut ad = h.adapt_io(a).unwrap();
    sched.schedule(async move { ad.readable().await }).unwrap();
    el.dispatch(Some(std::time::Duration::ZERO), &mut ()).unwrap();
    let r = std::panic::catch_unwind(std::panic::AssertUnwindSafe(|| h.remove(tok)));
    match r {
        Ok(()) => println!("ok: remove() returned"),
        Err(_) => {
            println!("DEFECT: remove() of the executor panicked (double borrow of the source list)");
            std::process::exit(1);
        }
    }
}
