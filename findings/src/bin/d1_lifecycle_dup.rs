//! D1 (fixed 906d96b): update() of a source with extra lifecycle events made before_sleep /
//! before_handle_events run twice (then three times, ...) per dispatch.
use calloop::ping::{make_ping, PingSource};
use calloop::{EventLoop, EventSource, Poll, PostAction, Readiness, Token, TokenFactory};
use std::cell::Cell;
use std::rc::Rc;
struct Life(PingSource, Rc<Cell<u32>>);
impl EventSource for Life {
    type Event = ();
    type Metadata = ();
    type Ret = ();
    type Error = Box<dyn std::error::Error + Sync + Send>;
    fn process_events<F: FnMut((), &mut ())>(&mut self, r: Readiness, t: Token, mut cb: F) -> Result<PostAction, Self::Error> {
        Ok(self.0.process_events(r, t, |(), m| cb((), m))?)
    }
    fn register(&mut self, p: &mut Poll, f: &mut TokenFactory) -> calloop::Result<()> { self.0.register(p, f) }
    fn reregister(&mut self, p: &mut Poll, f: &mut TokenFactory) -> calloop::Result<()> { self.0.reregister(p, f) }
    fn unregister(&mut self, p: &mut Poll) -> calloop::Result<()> { self.0.unregister(p) }
    const NEEDS_EXTRA_LIFECYCLE_EVENTS: bool = true;
    fn before_sleep(&mut self) -> calloop::Result<Option<(Readiness, Token)>> { self.1.set(self.1.get() + 1); Ok(None) }
}
fn main() {
    let mut el: EventLoop<()> = EventLoop::try_new().unwrap();
    let (_p, s) = make_ping().unwrap();
    let n = Rc::new(Cell::new(0));
    let tok = el.handle().insert_source(Life(s, n.clone()), |_, _, _| {}).unwrap();
    el.handle().update(&tok).unwrap();
    el.dispatch(Some(std::time::Duration::ZERO), &mut ()).unwrap();
    if n.get() != 1 { println!("DEFECT: before_sleep ran {} times in one dispatch after update()", n.get()); std::process::exit(1); }
    println!("ok");
}
