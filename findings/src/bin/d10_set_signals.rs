//! D10 (fixed b330859): set_signals unblocked the whole old mask first: a pending signal that stays
//! configured escaped to the process's handler instead of reaching the callback.
use calloop::signals::{Signal, Signals};
use calloop::EventLoop;
use std::sync::atomic::{AtomicU32, Ordering};
static HANDLED: AtomicU32 = AtomicU32::new(0);
extern "C" fn on_usr1(_: libc::c_int) { HANDLED.fetch_add(1, Ordering::SeqCst); }
fn main() {
    unsafe { libc::signal(libc::SIGUSR1, on_usr1 as usize); }
    let mut el: EventLoop<u32> = EventLoop::try_new().unwrap();
    let disp = calloop::Dispatcher::new(Signals::new(&[Signal::SIGUSR1]).unwrap(), |_, _, n: &mut u32| *n += 1);
    el.handle().register_dispatcher(disp.clone()).unwrap();
    unsafe { libc::raise(libc::SIGUSR1); }
    disp.as_source_mut().set_signals(&[Signal::SIGUSR1, Signal::SIGUSR2]).unwrap();
    let mut n = 0;
    el.dispatch(Some(std::time::Duration::ZERO), &mut n).unwrap();
    if n != 1 || HANDLED.load(Ordering::SeqCst) != 0 {
        println!("DEFECT: callback got {n} signal(s), the process handler ran {} time(s)", HANDLED.load(Ordering::SeqCst));
        std::process::exit(1);
    }
    println!("ok");
}
