//! D5 (fixed 78459b9): into_inner/drop of an Async adapter left its fd in the poller (EEXIST on reuse).
//! D6 (fixed 687bed4): a failing adapt_io leaked its source slot (observable: re-adapting keeps working
//! and the first registration of the fd is left alone).
use calloop::generic::Generic;
use calloop::{EventLoop, Interest, Mode, PostAction};
use std::os::unix::net::UnixStream;
fn main() {
    let el: EventLoop<()> = EventLoop::try_new().unwrap();
    let h = el.handle();
    let (a, _b) = UnixStream::pair().unwrap();
    let ad = h.adapt_io(a).unwrap();
    let a = ad.into_inner();
    let mut bad = false;
    match h.adapt_io(a) {
        Ok(ad2) => {
            let a = ad2.into_inner();
            if h.insert_source(Generic::new(a, Interest::READ, Mode::Level), |_, _, _| Ok(PostAction::Continue)).is_err() {
                println!("DEFECT: the fd released by into_inner cannot be inserted as a Generic"); bad = true;
            }
        }
        Err(e) => { println!("DEFECT: the fd released by into_inner cannot be adapted again: {e}"); bad = true; }
    }
    if bad { std::process::exit(1); }
    println!("ok");
}
