//! D9 (fixed 779c6a2): a timer re-registered (set_deadline + update from another callback) after its
//! expired timeout was collected fired at once, one hour early.
use calloop::ping::make_ping;
use calloop::timer::{TimeoutAction, Timer};
use calloop::{Dispatcher, EventLoop, LoopHandle, RegistrationToken};
use std::time::{Duration, Instant};
struct D { early: bool, fired: u32, h: LoopHandle<'static, D>, t: Option<(Dispatcher<'static, Timer, D>, RegistrationToken)> }
fn main() {
    let mut el: EventLoop<'static, D> = EventLoop::try_new().unwrap();
    let h = el.handle();
    let disp = Dispatcher::new(Timer::immediate(), |deadline: Instant, _: &mut (), d: &mut D| {
        d.fired += 1;
        if Instant::now() < deadline { d.early = true; }
        TimeoutAction::Drop
    });
    let tok = h.register_dispatcher(disp.clone()).unwrap();
    let (ping, ps) = make_ping().unwrap();
    h.insert_source(ps, |_, _, d: &mut D| {
        let (disp, tok) = d.t.as_ref().unwrap();
        disp.as_source_mut().set_deadline(Instant::now() + Duration::from_secs(3600));
        d.h.update(tok).unwrap();
    }).unwrap();
    ping.ping();
    let mut d = D { early: false, fired: 0, h: h.clone(), t: Some((disp, tok)) };
    el.dispatch(Some(Duration::ZERO), &mut d).unwrap();
    if d.early || d.fired != 0 { println!("DEFECT: the re-armed timer fired {} time(s), early={}", d.fired, d.early); std::process::exit(1); }
    println!("ok");
}
