//! D11 (open): sync_channel(0). SyncSender::send = try_send (Full -> ping) then the blocking std send.
//! If the loop drains that ping before the sender has parked, try_recv finds nobody waiting, nothing
//! pings again, and both sides sleep for ever. With back-to-back sends the ping that completes send
//! #i wakes the loop, which then also swallows the Full ping of send #i+1 while that sender is
//! between its try_send and its park. Probabilistic here (real threads); deterministic in
//! `cd /verif && ./check C04 quick` (driver sync-mt replays the recorded schedule; KNOWN-FINDING D11).
use calloop::channel::{sync_channel, Event};
use calloop::EventLoop;
use std::sync::atomic::{AtomicUsize, Ordering};
use std::sync::Arc;
use std::time::{Duration, Instant};

fn main() {
    let rounds = 200;
    let per_round = 50u32;
    let mut hung = 0;
    for _ in 0..rounds {
        let (tx, rx) = sync_channel::<u32>(0);
        let got = Arc::new(AtomicUsize::new(0));
        let g2 = got.clone();
        // the loop lives on its own thread and blocks without a timeout, as in D11
        let signal: Arc<std::sync::Mutex<Option<calloop::LoopSignal>>> = Arc::new(std::sync::Mutex::new(None));
        let s2 = signal.clone();
        let lt = std::thread::spawn(move || {
            let mut el: EventLoop<()> = EventLoop::try_new().unwrap();
            *s2.lock().unwrap() = Some(el.get_signal());
            el.handle()
                .insert_source(rx, move |ev, _, _| {
                    if let Event::Msg(_) = ev {
                        g2.fetch_add(1, Ordering::SeqCst);
                    }
                })
                .unwrap();
            let _ = el.run(None, &mut (), |_| {});
        });
        let st = std::thread::spawn(move || {
            for i in 0..per_round {
                if tx.send(i).is_err() {
                    break;
                }
            }
        });
        let t0 = Instant::now();
        let mut last = (0usize, Instant::now());
        let mut stuck = false;
        while got.load(Ordering::SeqCst) < per_round as usize {
            std::thread::sleep(Duration::from_millis(2));
            let g = got.load(Ordering::SeqCst);
            if g != last.0 {
                last = (g, Instant::now());
            } else if last.1.elapsed() > Duration::from_millis(1500) {
                stuck = true;
                break;
            }
            if t0.elapsed() > Duration::from_secs(20) {
                stuck = true;
                break;
            }
        }
        if stuck {
            hung += 1;
        }
        // tear down: stop the loop (dropping it drops the receiver, which releases a parked sender)
        loop {
            if let Some(s) = signal.lock().unwrap().as_ref() {
                s.stop();
                s.wakeup();
                break;
            }
        }
        lt.join().unwrap();
        st.join().unwrap();
        if hung > 0 {
            break;
        }
    }
    if hung > 0 {
        println!("DEFECT: a blocking send on sync_channel(0) never completed although the loop was dispatching (sender parked, loop asleep)");
        std::process::exit(1);
    }
    println!("ok (race not hit in {rounds} rounds of {per_round} back-to-back sends; see ./check C04 quick for the deterministic schedule)");
}
