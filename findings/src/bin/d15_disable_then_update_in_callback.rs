//! D15 (fixed): a source calls disable() and then update() on itself from inside its own callback.
//! Both requests are deferred to the end of its event processing in one cell, and the update used to
//! overwrite the disable: disable() had returned Ok, yet the source stayed enabled.
use calloop::ping::make_ping;
use calloop::{EventLoop, LoopHandle, RegistrationToken};
use std::time::Duration;

struct St {
    h: LoopHandle<'static, St>,
    tok: Option<RegistrationToken>,
    calls: u32,
}

fn main() {
    let mut el: EventLoop<'static, St> = EventLoop::try_new().unwrap();
    let h = el.handle();
    let (ping, src) = make_ping().unwrap();
    let tok = h
        .insert_source(src, |_, _, st: &mut St| {
            st.calls += 1;
            if st.calls == 1 {
                let tok = st.tok.unwrap();
                st.h.disable(&tok).unwrap();
                st.h.update(&tok).unwrap();
            }
        })
        .unwrap();
    let mut st = St { h: h.clone(), tok: Some(tok), calls: 0 };
    ping.ping();
    el.dispatch(Some(Duration::ZERO), &mut st).unwrap();
    // disable() returned Ok inside the callback: no callback until enable()
    ping.ping();
    el.dispatch(Some(Duration::ZERO), &mut st).unwrap();
    if st.calls != 1 {
        println!("DEFECT: the source disabled itself (then asked for an update) but was called {} times", st.calls);
        std::process::exit(1);
    }
    // and enable() brings it back, with the ping that accumulated meanwhile
    if let Err(e) = h.enable(&tok) {
        println!("DEFECT: enable() of the source that disabled itself failed: {e}");
        std::process::exit(1);
    }
    el.dispatch(Some(Duration::ZERO), &mut st).unwrap();
    if st.calls != 2 {
        println!("DEFECT: after enable() the pending ping was not delivered (calls = {})", st.calls);
        std::process::exit(1);
    }
    println!("ok: disable(); update() from the source's own callback leaves it disabled until enable()");
}
