//! D2 (fixed b07fda5): a lifecycle source whose register() fails left its entry in the lifecycle set:
//! the next dispatch hit unreachable!().
use calloop::{EventLoop, EventSource, Poll, PostAction, Readiness, Token, TokenFactory};
struct Bad;
impl EventSource for Bad {
    type Event = ();
    type Metadata = ();
    type Ret = ();
    type Error = std::io::Error;
    fn process_events<F: FnMut((), &mut ())>(&mut self, _: Readiness, _: Token, _: F) -> Result<PostAction, Self::Error> { Ok(PostAction::Continue) }
    fn register(&mut self, _: &mut Poll, _: &mut TokenFactory) -> calloop::Result<()> { Err(calloop::Error::IoError(std::io::Error::new(std::io::ErrorKind::Other, "nope"))) }
    fn reregister(&mut self, _: &mut Poll, _: &mut TokenFactory) -> calloop::Result<()> { Ok(()) }
    fn unregister(&mut self, _: &mut Poll) -> calloop::Result<()> { Ok(()) }
    const NEEDS_EXTRA_LIFECYCLE_EVENTS: bool = true;
}
fn main() {
    let mut el: EventLoop<()> = EventLoop::try_new().unwrap();
    assert!(el.handle().insert_source(Bad, |_, _, _| {}).is_err());
    let r = std::panic::catch_unwind(std::panic::AssertUnwindSafe(|| el.dispatch(Some(std::time::Duration::ZERO), &mut ())));
    if r.is_err() { println!("DEFECT: dispatch panicked after a rejected insertion"); std::process::exit(1); }
    println!("ok");
}
