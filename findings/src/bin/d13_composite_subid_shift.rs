//! D13 (open): sub-tokens are handed out by position. In a composite source
//! [TransientSource<A>, B, C] (the layout the TransientSource documentation suggests) the removal of A
//! makes B and C move up one sub-id on the re-registration. An event for B that was already
//! collected in the same batch carries B's *old* sub-id, which is now C's: C's callback runs for
//! B's event although nothing happened on C's fd.
use calloop::generic::Generic;
use calloop::transient::TransientSource;
use calloop::{EventLoop, EventSource, Interest, Mode, Poll, PostAction, Readiness, Token, TokenFactory};
use std::io::{Read, Write};
use std::os::unix::net::UnixStream;

struct Comp {
    a: TransientSource<Generic<UnixStream>>,
    b: Generic<UnixStream>,
    c: Generic<UnixStream>,
}
impl EventSource for Comp {
    type Event = &'static str;
    type Metadata = ();
    type Ret = ();
    type Error = std::io::Error;
    fn process_events<F: FnMut(&'static str, &mut ())>(&mut self, r: Readiness, t: Token, mut cb: F) -> Result<PostAction, Self::Error> {
        let mut buf = [0u8; 8];
        // A removes itself as soon as it has received something
        let ra = self.a.process_events(r, t, |_, s| {
            let _ = unsafe { s.get_mut() }.read(&mut buf);
            Ok(PostAction::Remove)
        })?;
        self.b.process_events(r, t, |_, s| {
            let _ = unsafe { s.get_mut() }.read(&mut buf);
            cb("b", &mut ());
            Ok(PostAction::Continue)
        })?;
        self.c.process_events(r, t, |_, s| {
            let _ = unsafe { s.get_mut() }.read(&mut buf);
            cb("c", &mut ());
            Ok(PostAction::Continue)
        })?;
        Ok(ra)
    }
    fn register(&mut self, p: &mut Poll, f: &mut TokenFactory) -> calloop::Result<()> {
        self.a.register(p, f)?;
        self.b.register(p, f)?;
        self.c.register(p, f)
    }
    fn reregister(&mut self, p: &mut Poll, f: &mut TokenFactory) -> calloop::Result<()> {
        self.a.reregister(p, f)?;
        self.b.reregister(p, f)?;
        self.c.reregister(p, f)
    }
    fn unregister(&mut self, p: &mut Poll) -> calloop::Result<()> {
        self.a.unregister(p)?;
        self.b.unregister(p)?;
        self.c.unregister(p)
    }
}

fn main() {
    let mut el: EventLoop<Vec<&'static str>> = EventLoop::try_new().unwrap();
    let mk = || {
        let (x, y) = UnixStream::pair().unwrap();
        y.set_nonblocking(true).unwrap();
        (x, Generic::new(y, Interest::READ, Mode::Level))
    };
    let (mut wa, ga) = mk();
    let (mut wb, gb) = mk();
    let (_wc, gc) = mk();
    el.handle()
        .insert_source(Comp { a: ga.into(), b: gb, c: gc }, |who, _, log: &mut Vec<&'static str>| log.push(who))
        .unwrap();
    wa.write_all(b"x").unwrap();
    wb.write_all(b"x").unwrap();
    let mut log = vec![];
    for _ in 0..3 {
        el.dispatch(Some(std::time::Duration::ZERO), &mut log).unwrap();
    }
    if log.contains(&"c") {
        println!("DEFECT: C's callback ran although only A and B had data: {log:?} (B's stale event was routed to C after the sub-ids shifted)");
        std::process::exit(1);
    }
    println!("ok: {log:?}");
}
