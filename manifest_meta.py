META = {
    "C20": {
        "engine": "K",
        "technique": "exhaustive enumeration of the key domain through the real conversions (bounded-exhaustive exploration)",
        "text": "All 2^32 (generation, sub-id) pairs are enumerated for each boundary slot id and pushed through the real encode/decode/bump functions; a dense stride of slot ids is enumerated with all boundary pairs; token factories are run to exhaustion. The domain is finite, so enumeration decides the property for the enumerated ids outright.",
        "design_ref": "DESIGN.md section 5 C20, section 3.4",
        "note": "trusts that the cfg-gated accessors in src/verif.rs call the production conversions (they are one-line wrappers); 64-bit layout only",
    },
}
NOT_YET = {}
