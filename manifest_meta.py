META = {
    "C20": {
        "engine": "K",
        "technique": "exhaustive enumeration of the key domain through the real conversions (bounded-exhaustive exploration)",
        "text": "All 2^32 (generation, sub-id) pairs are enumerated for each boundary slot id and pushed through the real encode/decode/bump functions; a dense stride of slot ids is enumerated with all boundary pairs; token factories are run to exhaustion. The domain is finite, so enumeration decides the property for the enumerated ids outright.",
        "design_ref": "DESIGN.md section 5 C20, section 3.4",
        "note": "trusts that the cfg-gated accessors in src/verif.rs call the production conversions (they are one-line wrappers); 64-bit layout only",
    },
}
def _world(text, ref, note="the reference model (harness/src/world.rs) transcribes the statement clause by clause with the stated latitude; hooks H1/H2/H5 are identity outside the harness; interleavings inside kernel/std calls are atomic"):
    return {"engine": "S", "technique": "bounded-exhaustive exploration of operation histories and in-callback programs against the real loop, judged by a reference model (stateless model checking with iterative deviation bounding)", "text": text, "design_ref": ref, "note": note}

META["C01"] = _world("Every history up to the depth bound over {insert, remove, disable, enable, update, cause, dispatch, stale-token use} x in-callback {remove, disable, enable, update, cause, insert, remove-self+insert, return Remove/Disable/Reregister/reschedule} up to the deviation bound is run on the real loop with ping, channel, timer and fd sources; each callback must be attributable to a live, enabled registration holding a cause of exactly that payload.", "DESIGN.md section 5 C01")
META["C02"] = _world("All 12 interest x mode registrations of an fd source (re-configured through update), and batches of 3-4 simultaneously ready sources of mixed kinds with in-callback operations: at the end of every Ok dispatch each source that had a pending cause when the wait began and was not disturbed has been called; one-shot exactly once per arming, edge at least once per transition; the kernel interest list is compared with the model after every step.", "DESIGN.md section 5 C02")
META["C06"] = _world("Every removal path (external, self, other-callback, PostAction::Remove, timer Drop, closed channel, closed ping) x immediate slot reuse x later use of every token ever issued: no callback after removal, source and callback dropped exactly once by the end of the step, dead tokens return InvalidToken and change nothing (loop statistics and registration counters compared before/after), everything released once when the loop is dropped.", "DESIGN.md section 5 C06")
META["C07"] = _world("Disable/enable/update (also of disabled sources) from outside and from callbacks of the same or another source, around causes produced before, during and after the disabled interval, for ping, channel, timer and level/edge/one-shot fd sources: zero callbacks while disabled (self-disable latitude for the rest of the current process_events), retained causes are owed in the first dispatch after enable, other sources' obligations unchanged.", "DESIGN.md section 5 C07")

NOT_YET = {}
