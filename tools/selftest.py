#!/usr/bin/env python3
"""selftest: apply every kept seeded change to /repo in turn and verify that the check(s) listed in
its meta.json `caught_by` report a violation (exit 1 with a VIOLATION line), then restore /repo.
usage: tools/selftest.py [--first] [seed-name ...]   (writes seeded/selftest_result.json; --first: only the
first check listed in caught_by; env VROOT / REPO select another copy of /verif and /repo)"""
import json, glob, os, subprocess, sys, time
ROOT = os.environ.get("VROOT", "/verif")
REPO = os.environ.get("REPO", "/repo")
FIRST = "--first" in sys.argv
names = [a for a in sys.argv[1:] if not a.startswith("--")]
res = {}
assert subprocess.run(["git", "-C", REPO, "status", "--porcelain"], capture_output=True, text=True).stdout.strip() == "", "/repo is not clean"
for meta in sorted(glob.glob(f"{ROOT}/seeded/*/meta.json")):
    name = os.path.basename(os.path.dirname(meta))
    if names and name not in names:
        continue
    m = json.load(open(meta))
    if not m["caught_by"]:
        res[name] = {"expected": "not caught (documented)", "ok": True}
        continue
    patch = os.path.join(os.path.dirname(meta), "patch.diff")
    a = subprocess.run(["git", "-C", REPO, "apply", patch], capture_output=True, text=True)
    if a.returncode != 0:
        res[name] = {"ok": False, "error": "patch does not apply: " + a.stderr[:200]}
        continue
    try:
        r = {}
        for cid in (m["caught_by"][:1] if FIRST else m["caught_by"]):
            t = time.time()
            p = subprocess.run(["./check", cid, "quick"], cwd=ROOT, capture_output=True, text=True)
            r[cid] = {"rc": p.returncode, "violations": p.stdout.count("\nVIOLATION") + p.stdout.startswith("VIOLATION"), "wall_s": round(time.time() - t, 1)}
        res[name] = {"ok": all(v["rc"] == 1 and v["violations"] > 0 for v in r.values()), "checks": r}
    finally:
        subprocess.run(["git", "-C", REPO, "checkout", "--", "."])
    print(name, res[name], flush=True)
out = f"{ROOT}/seeded/selftest_result.json"
if names or FIRST:
    old = json.load(open(out)) if os.path.exists(out) else {}
    old.update(res)
    res_all = old
else:
    res_all = res
json.dump(res_all, open(out, "w"), indent=1)
bad = [k for k, v in res.items() if not v["ok"]]
print("SELFTEST", "OK" if not bad else f"FAILED for {bad}")
sys.exit(1 if bad else 0)
