#!/usr/bin/env python3
"""seedtable.py: print the markdown table of DESIGN.md 13.7 from seeded/*/meta.json"""
import json, glob, os
print("| seed | change | caught by | note |\n|---|---|---|---|")
for meta in sorted(glob.glob("/verif/seeded/*/meta.json")):
    m = json.load(open(meta))
    name = os.path.basename(os.path.dirname(meta))
    s = m["summary"].replace("|", "/").replace("\n", " ")[:150]
    c = ", ".join(m["caught_by"]) or "**none**"
    print(f"| {name} | {s} | {c} | {m.get('note','').replace('|','/')} |")
