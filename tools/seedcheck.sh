#!/bin/bash
# usage: seedcheck.sh <Cxx> <patchfile> <example-name> [check-ids...]
# 1. confirms the seed in its scratch worktree /tmp/wt-<Cxx>: applies, builds, 55 tests pass, demo fails; reverted: demo passes
# 2. applies it to /repo, runs ./check <id> quick for each id (default: the property), reverts /repo
P=$1; PATCH=$2; EX=$3; shift 3; IDS=${@:-$P}
WT=${WTDIR:-/tmp/wt-$P}; export CARGO_TARGET_DIR=$WT/target
FEAT="--features executor,block_on,signals,stream,futures-io"
if [ -z "$SKIP_WT" ]; then
cd $WT || exit 9
git checkout -q -- src; git apply $PATCH || { echo "APPLY-FAILED"; exit 9; }
T=$(cargo test --workspace --no-fail-fast --offline 2>&1 | grep -E '^test result' | head -1)
echo "tests-with-change: $T"
if [ -f examples/$EX.rs ]; then timeout 300 cargo run -q --offline $FEAT --example $EX >/tmp/seedcheck.out 2>&1; RC1=$?; else timeout 300 cargo test -q --offline $FEAT --test $EX >/tmp/seedcheck.out 2>&1; RC1=$?; fi
echo "demo-with-change rc=$RC1"
git checkout -q -- src
if [ -f examples/$EX.rs ]; then timeout 300 cargo run -q --offline $FEAT --example $EX >/tmp/seedcheck.out 2>&1; RC0=$?; else timeout 300 cargo test -q --offline $FEAT --test $EX >/tmp/seedcheck.out 2>&1; RC0=$?; fi
echo "demo-without-change rc=$RC0"
fi
[ -n "$SKIP_REPO" ] && exit 0
cd /repo && git apply $PATCH || { echo "APPLY-TO-REPO-FAILED"; git -C /repo checkout -- .; exit 9; }
cd /verif
for id in $IDS; do
  ./check $id quick > /tmp/seedcheck.$id.out 2>&1; RC=$?
  echo "check $id rc=$RC: $(grep -c '^VIOLATION' /tmp/seedcheck.$id.out) violations; $(grep -E '^  clause=' /tmp/seedcheck.$id.out | sort | uniq -c | head -4 | tr '\n' ';')"
done
git -C /repo checkout -- .
git -C /repo status --short | head -3
