#!/bin/bash
# Runs every thorough tier in turn from /verif against /repo, keeps a copy of each evidence file
# under evidence_thorough/ and restores the quick evidence afterwards. Needs /repo clean and idle.
cd /verif; mkdir -p evidence_thorough
for p in ${@:-C01 C02 C03 C04 C05 C06 C07 C08 C09 C10 C11 C12 C13 C14 C15 C16 C17 C18 C19 C20}; do
  cp evidence/$p.json /tmp/quick-$p.json 2>/dev/null
  s=$(date +%s)
  ./check $p thorough > replays/thorough-$p.log 2>&1; rc=$?
  echo "$p rc=$rc wall=$(( $(date +%s) - s ))s $(tail -1 replays/thorough-$p.log)"
  cp evidence/$p.json evidence_thorough/$p.json
  cp /tmp/quick-$p.json evidence/$p.json 2>/dev/null
done
