#!/usr/bin/env python3
"""keepseed.py <Cxx> <n> <patchfile> <demo-file> <metafile> <caught_by csv or -> <note>
Copies a confirmed seeded change into /verif/seeded/<Cxx>-<n>/ (patch.diff, demo, meta.json)."""
import sys, os, json, shutil
p, n, patch, demo, meta, caught, note = sys.argv[1:8]
d = f"/verif/seeded/{p}-{n}"
os.makedirs(d, exist_ok=True)
shutil.copy(patch, f"{d}/patch.diff")
shutil.copy(demo, f"{d}/{os.path.basename(demo)}")
m = json.load(open(meta))
m["breaks_property"] = p
m["demo"] = os.path.basename(demo)
m["confirmed_by_me"] = {
    "how": f"tools/seedcheck.sh in the scratch worktree /tmp/wt-{p} (round 1) or /tmp/wt2-{p} (round 2): git apply patch.diff; cargo test --workspace --offline (55 lib tests pass); demo run fails; git checkout -- src; demo run passes",
    "compiles": True, "existing_tests_pass": True, "demo_fails_with_change": True, "demo_passes_without": True,
}
m["checks_run"] = f"git -C /repo apply patch.diff; ./check <id> quick; git -C /repo checkout -- ."
m["caught_by"] = [] if caught == "-" else caught.split(",")
m["note"] = note
json.dump(m, open(f"{d}/meta.json", "w"), indent=1)
print("kept", d)
