#!/usr/bin/env python3
"""allviolations.py: list every violation any driver wrote into /verif/work/*/ (whatever property it is
tagged with), minus those matching known_findings.json. On the unchanged tree this must print nothing:
a violation tagged with a property whose check does not run that driver would otherwise go unnoticed."""
import json, glob, collections
known = json.load(open('/verif/known_findings.json'))['findings']
def is_known(v):
    for k in known:
        if k['clause'] == v['clause'] and k['property'] in v['props'] and all(v['features'].get(a) == b for a, b in k.get('match', {}).items()):
            return True
    return False
seen = collections.Counter()
ex = {}
for f in glob.glob('/verif/work/*/*.json'):
    try: r = json.load(open(f))
    except Exception: continue
    for v in r.get('violations', []):
        if is_known(v): continue
        key = (r.get('driver'), v['clause'], json.dumps(v['features'], sort_keys=True), ','.join(v['props']))
        seen[key] += 1
        ex.setdefault(key, (f, v['message'][:200], v.get('decoded')))
for k, n in sorted(seen.items()):
    print(n, k); print('   ', ex[k])
print('TOTAL', sum(seen.values()))
