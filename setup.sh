#!/bin/sh
# setup_cmd: offline prebuild of the harness against /repo's current tree (all deps are in the cargo cache)
set -e
cd "$(dirname "$0")"
export CARGO_NET_OFFLINE=true
cp -n /repo/Cargo.lock harness/Cargo.lock 2>/dev/null || true
./check --build
