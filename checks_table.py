"""Property -> drivers table used by ./check (kept separate so the script stays generic)."""

SEQ_ASSUME = [
    "sequential-consistency at hook granularity; interleavings inside std/polling/kernel calls are atomic steps",
    "Linux epoll backend of polling 3.11 (level_triggered emulation map is None)",
    "virtual clock: Instant::now() in calloop is replaced by the harness clock (hook H1); the blocking wait is replaced by a zero-timeout wait plus clock advance (hook H2)",
]

TABLE = {
    "C20": {
        "level": "exploration",
        "rule": ("every (generation, sub-id) pair (2^32 of them) for each boundary slot id is pushed through the real "
                 "fields->key->fields conversions, generation bump and reserved-key test; a dense stride of slot ids with all "
                 "boundary/single-bit (generation, sub-id) pairs; token factories run to exhaustion. non-trivial = triples with "
                 "generation != 0 and sub-id != 0 (field overlap would show) plus every factory token; all are distinct inputs"),
        "explanation": "exhaustive enumeration of the finite key domain for boundary ids; dense enumeration elsewhere",
        "assumptions": ["64-bit target (16-bit generation and sub-id fields)",
                        "accessors in calloop::verif are thin wrappers over the real conversions (H6, reviewed)"],
        "drivers": [
            {"driver": "keys", "required_clauses": ["roundtrip", "bump", "dense-ids", "factory"], "replayable": False},
        ],
    },
}
