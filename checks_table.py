"""Property -> drivers table used by ./check (kept separate so the script stays generic)."""

SEQ_ASSUME = [
    "sequential-consistency at hook granularity; interleavings inside std/polling/kernel calls are atomic steps",
    "Linux epoll backend of polling 3.11 (level_triggered emulation map is None)",
    "virtual clock: Instant::now() in calloop is replaced by the harness clock (hook H1); the blocking wait is replaced by a zero-timeout wait plus clock advance (hook H2)",
]

T_ASSUME = [
    "sequentially consistent interleavings at the granularity of the yield points compiled into calloop (hook H3) plus harness operation boundaries; steps between two points, and every std/polling/kernel call, are atomic",
    "exactly one controlled thread runs at a time (baton passing); the loop thread never blocks in the kernel: the wait seam marks it blocked and it is enabled iff the epoll fd is readable",
    "relaxed-memory effects are not explored (every cross-thread access in the anchored code is SeqCst, Acquire/Release followed by a syscall, a mutex, std mpsc or the kernel)",
]
SCHED_RULE = ("every combination of worker-thread programs (free tape choices) x every schedule of the loop thread and the worker threads "
              "up to the preemption bound reported per driver (iterative context bounding; 'exhaustive_within_bounds' says whether every level up to the "
              "bound completed) is executed on real OS threads under the controlled scheduler; sequential drivers enumerate histories as for the world "
              "drivers. states = distinct complete schedules; distinct = distinct end observations; non-trivial = a context switch happened and a callback/poll ran")

WORLD_RULE = ("every history of top-level operations up to the depth bound over the driver's alphabet, with every placement of "
              "in-callback handle operations up to the deviation bound, is executed against the real EventLoop (choice-tape re-execution "
              "DFS, iterative deviation bounding, optional state-hash pruning) and judged step by step by the reference model. "
              "distinct = distinct observation logs (callback sequence + results); non-trivial = at least one callback ran AND at least "
              "one in-callback deviation took effect")

def world(level_drivers):
    return level_drivers

TABLE = {
    "C01": {
        "level": "model_checking", "rule": WORLD_RULE, "assumptions": SEQ_ASSUME,
        "drivers": [
            {"driver": "reuse", "required_clauses": ["callback-legitimacy", "stale-token", "dispatch-owed", "timer-fire"]},
            {"driver": "batch", "required_clauses": ["callback-legitimacy", "dispatch-owed"]},
            {"driver": "disable", "required_clauses": ["callback-legitimacy"]},
            {"driver": "pairs", "required_clauses": ["callback-legitimacy", "dispatch-owed", "timer-fire"]},
            {"driver": "slot-wrap", "required_clauses": ["slot-wrap"], "shards": 1, "replayable": False},
            {"driver": "composite", "required_clauses": ["scripted-callback", "post-action"]},
            {"driver": "lifecycle", "required_clauses": ["scripted-callback"]},
            {"driver": "timers", "required_clauses": ["timer-fire", "callback-legitimacy"]},
        ],
    },
    "C02": {
        "level": "model_checking", "rule": WORLD_RULE, "assumptions": SEQ_ASSUME + ["HUP/ERR readiness is not generated (both ends of every fd stay open)"],
        "drivers": [
            {"driver": "modes", "required_clauses": ["dispatch-owed", "oneshot", "epoll-table", "callback-legitimacy"]},
            {"driver": "batch", "required_clauses": ["dispatch-owed", "callback-legitimacy", "timer-fire"]},
            {"driver": "limit", "required_clauses": ["batch-limit"], "shards": 1, "replayable": False},
            {"driver": "manyready", "required_clauses": ["many-ready"], "shards": 1, "replayable": False},
            {"driver": "lifecycle", "required_clauses": ["scripted-callback", "dispatch-end"]},
        ],
    },
    "C05": {
        "level": "model_checking", "rule": WORLD_RULE, "assumptions": SEQ_ASSUME + ["time is the harness's virtual clock on a grid of 1 s steps; deadlines in {past, +1, +2, unrepresentable}"],
        "drivers": [
            {"driver": "timers", "required_clauses": ["timer-fire", "dispatch-owed", "wait-request", "wait-slept", "callback-legitimacy"]},
            {"driver": "batch", "required_clauses": ["timer-fire"]},
            {"driver": "faults", "required_clauses": ["dispatch-end", "failed-registration-call"]},
            {"driver": "wakeup", "required_clauses": ["far-timer-silent"], "opts": {"quick": {"preempt": 100}, "thorough": {"preempt": 100}}, "shards": 1},
        ],
    },
    "C12": {
        "level": "model_checking", "rule": WORLD_RULE, "assumptions": SEQ_ASSUME + ["the 'no oversleeping beyond scheduling latency' clause is a real-time statement; what is decided is that the timeout handed to the poller equals min(timeout, earliest armed deadline - now) exactly, that exactly one wait happens, that nothing pending means the poller is not readable, and that a timer which was the limit fires in that dispatch"],
        "drivers": [
            {"driver": "wait", "required_clauses": ["wait-request", "wait-slept", "wait-forever", "timer-fire"]},
            {"driver": "timers", "required_clauses": ["wait-request"]},
            {"driver": "wait-real", "required_clauses": ["real-time-wait"], "shards": 1, "replayable": False},
            {"driver": "async-io", "required_clauses": ["idle-after-completion"]},
            {"driver": "wakeup", "required_clauses": ["wakeup"], "opts": {"quick": {"preempt": 100}, "thorough": {"preempt": 100}}, "shards": 1},
        ],
    },
    "C06": {
        "level": "model_checking", "rule": WORLD_RULE, "assumptions": SEQ_ASSUME + ["no actor owns a strong LoopHandle (the documented reference cycle is excluded by construction)"],
        "drivers": [
            {"driver": "removal", "required_clauses": ["release", "stale-token", "callback-legitimacy", "epoll-table"]},
            {"driver": "reuse", "required_clauses": ["release", "stale-token"]},
            {"driver": "slot-wrap", "required_clauses": ["slot-wrap"], "shards": 1, "replayable": False},
            {"driver": "exec-seq", "required_clauses": ["executor-destroyed"]},
        ],
    },
    "C07": {
        "level": "model_checking", "rule": WORLD_RULE, "assumptions": SEQ_ASSUME,
        "drivers": [
            {"driver": "disable", "required_clauses": ["callback-legitimacy", "dispatch-owed", "timer-fire", "oneshot"]},
            {"driver": "batch", "required_clauses": ["callback-legitimacy", "dispatch-owed"]},
            {"driver": "pairs", "required_clauses": ["callback-legitimacy", "dispatch-owed", "timer-fire"]},
            {"driver": "epoll", "required_clauses": ["epoll-table"]},
        ],
    },
    "C03": {
        "level": "model_checking", "rule": SCHED_RULE, "assumptions": T_ASSUME,
        "drivers": [
            {"driver": "ping-mt", "required_clauses": ["ping-delivery", "ping-close"],
             "opts": {"quick": {"threads": 2, "len": 2, "preempt": 2}, "thorough": {"threads": 2, "len": 3, "preempt": 3, "wall": 600}}},
            {"driver": "ping-seq", "required_clauses": ["callback-legitimacy", "dispatch-owed", "epoll-table"]},
            {"driver": "transient", "required_clauses": ["transient", "change-in-process-events"], "opts": {"quick": {"dev": 1}, "thorough": {"dev": 2}}},
        ],
    },
    "C04": {
        "level": "model_checking", "rule": SCHED_RULE, "assumptions": T_ASSUME,
        "drivers": [
            {"driver": "chan-mt", "required_clauses": ["channel-delivery", "channel-closed"],
             "opts": {"quick": {"threads": 2, "len": 2, "preempt": 2}, "thorough": {"threads": 2, "len": 3, "preempt": 3, "wall": 600}}},
            {"driver": "chan-seq", "required_clauses": ["callback-legitimacy", "dispatch-owed"]},
            {"driver": "limit", "required_clauses": ["batch-limit"], "shards": 1, "replayable": False},
            {"driver": "sync-mt", "required_clauses": ["sync-channel-delivery", "blocking-send-parked", "channel-closed"],
             "opts": {"quick": {"threads": 1, "len": 2, "preempt": 2}, "thorough": {"threads": 2, "len": 2, "preempt": 2, "wall": 600}}},
        ],
    },
    "C08": {
        "level": "model_checking", "rule": WORLD_RULE, "assumptions": SEQ_ASSUME + ["excluded as documented: enable() of, and Dispatcher::as_source_ref/as_source_mut on, the source whose callback is running; operations issued from inside a future body are limited to what the executor callback and scheduling exercise"],
        "drivers": [
            {"driver": "reentrancy", "required_clauses": ["callback-legitimacy", "idle-from-callback", "dispatch-owed", "executor-destroyed", "blocking-mode-restored", "timer-fire"]},
            {"driver": "crash-probe", "required_clauses": ["destructor-reentrancy"], "shards": 1, "replayable": False},
            {"driver": "pairs", "required_clauses": ["callback-legitimacy", "dispatch-owed", "timer-fire"]},
            {"driver": "idle", "required_clauses": ["idle-run"]},
            {"driver": "idle-burst", "required_clauses": ["idle-burst"], "shards": 1, "replayable": False},
            {"driver": "lifecycle", "required_clauses": ["lifecycle"]},
        ],
    },
    "C09": {
        "level": "model_checking", "rule": WORLD_RULE, "assumptions": SEQ_ASSUME + ["scripted sources are harness-defined composites over Generic children; when the same callback also removes its own source, or when event processing fails, only the final state of that source and the absence of any effect on others are required (statement is silent on the combination)"],
        "drivers": [
            {"driver": "postaction", "required_clauses": ["post-action", "registration-counters", "scripted-callback", "dispatch-end"]},
            {"driver": "pa-table", "required_clauses": ["bitor-table"], "shards": 1, "replayable": False},
        ],
    },
    "C13": {
        "level": "model_checking", "rule": WORLD_RULE, "assumptions": SEQ_ASSUME + ["Idle::cancel of the idle that is currently running is not generated (excluded: it double-borrows by construction)"],
        "drivers": [
            {"driver": "idle", "required_clauses": ["idle-run", "idles", "scripted-callback"]},
            {"driver": "idle-burst", "required_clauses": ["idle-burst"], "shards": 1, "replayable": False},
            {"driver": "block-on-idle", "required_clauses": ["block-on-idle"], "shards": 1, "replayable": False},
        ],
    },
    "C14": {
        "level": "model_checking", "rule": WORLD_RULE, "assumptions": SEQ_ASSUME,
        "drivers": [
            {"driver": "lifecycle", "required_clauses": ["lifecycle", "scripted-callback", "registration-counters"]},
            {"driver": "faults", "required_clauses": ["lifecycle", "failed-insert", "failed-registration-call"]},
            {"driver": "postaction", "required_clauses": ["lifecycle", "post-action"]},
        ],
    },
    "C15": {
        "level": "fault_enumeration", "rule": ("every registration / re-registration / unregistration call of every scripted (sub-)source in every history up to the depth bound is a fault point (one deviation each: fail now), "
                 "and every callback may make its source's event processing return an error; after the fault the history continues and closes with fault-free dispatches. distinct = distinct observation logs; "
                 "non-trivial = a callback ran and at least one fault or in-callback deviation took effect"),
        "assumptions": SEQ_ASSUME + ["faults are injected errors at the composite's registration steps (children registered before the failing step stay registered, as with a '?' in user code); a composite that is left partially registered by a failed enable/update/disable is its own business — the oracle protects the other sources and the loop bookkeeping"],
        "drivers": [
            {"driver": "faults", "required_clauses": ["failed-insert", "failed-registration-call", "dispatch-end", "scripted-callback", "insert-retried", "timer-child-armed"]},
            {"driver": "postaction", "required_clauses": ["post-action"]},
            {"driver": "epoll", "required_clauses": ["duplicate-fd", "bad-fd", "epoll-table"]},
        ],
    },
    "C16": {
        "level": "model_checking", "rule": WORLD_RULE, "assumptions": SEQ_ASSUME + ["precondition of the statement: no registration failures are injected here", "the kernel side is read from /proc/self/fdinfo/<epoll fd> after every top-level step; expected event masks are calibrated through the polling crate, not through calloop"],
        "drivers": [
            {"driver": "epoll", "required_clauses": ["epoll-table", "blocking-mode-restored", "reinsert-released-fd", "executor-destroyed", "release"]},
            {"driver": "modes", "required_clauses": ["epoll-table"]},
            {"driver": "removal", "required_clauses": ["epoll-table"]},
            {"driver": "postaction", "required_clauses": ["post-action"]},
            {"driver": "crash-probe", "required_clauses": ["destructor-reentrancy"], "shards": 1, "replayable": False},
            {"driver": "async-io", "required_clauses": ["release"]},
        ],
    },
    "C10": {
        "level": "model_checking", "rule": SCHED_RULE, "assumptions": T_ASSUME,
        "drivers": [
            {"driver": "exec-mt", "required_clauses": ["executor-wake", "executor-drop"],
             "opts": {"quick": {"threads": 2, "len": 2, "preempt": 2}, "thorough": {"threads": 2, "len": 3, "preempt": 3, "wall": 600}}},
            {"driver": "exec-seq", "required_clauses": ["callback-legitimacy", "dispatch-owed", "executor-destroyed", "wait-request"]},
            {"driver": "stream-seq", "required_clauses": ["callback-legitimacy", "dispatch-owed", "epoll-table", "wait-request"]},
            {"driver": "limit", "required_clauses": ["batch-limit"], "shards": 1, "replayable": False},
        ],
    },
    "C11": {
        "level": "model_checking", "rule": SCHED_RULE, "assumptions": T_ASSUME + ["polling::Poller::notify/wait are atomic steps (dependency code is not instrumented)"],
        "drivers": [
            {"driver": "wakeup", "required_clauses": ["wakeup"], "opts": {"quick": {"preempt": 100}, "thorough": {"preempt": 100}}, "shards": 1},
            {"driver": "run", "required_clauses": ["run-stop"], "opts": {"quick": {"preempt": 100}, "thorough": {"preempt": 100}}, "shards": 1},
            {"driver": "block_on", "required_clauses": ["block-on"], "opts": {"quick": {"preempt": 100}, "thorough": {"preempt": 100}}, "shards": 1},
            {"driver": "signal-mt", "required_clauses": ["run-stop-mt"],
             "opts": {"quick": {"threads": 2, "len": 2, "preempt": 2}, "thorough": {"threads": 2, "len": 3, "preempt": 3, "wall": 600}}},
        ],
    },
    "C17": {
        "level": "model_checking",
        "rule": ("every configuration from the grid (message length x write chunk x read buffer, reader via AsyncRead or readable()+read, writer task / raw peer / writable()+write, "
                 "fd blocking or non-blocking beforehand, release by drop or into_inner) x every history of up to 4 (quick) / 5 (thorough) operations from {schedule reader, schedule writer or next raw write, dispatch}, "
                 "followed by a fair completion phase, is executed on real socketpairs with minimised buffers. states = distinct complete choice sequences; distinct = distinct end observations; non-trivial = the reader finished a message longer than one byte"),
        "assumptions": SEQ_ASSUME + ["'all byte strings' is covered by data independence (the adapter never inspects values; one position-dependent pattern per length shows loss, duplication and reordering) plus the length/chunk grid — a stated bound, not exhaustive over byte strings",
                                     "reader and writer of the *same* adapter pending simultaneously (single waker slot) is not generated"],
        "drivers": [
            {"driver": "async-io", "required_clauses": ["async-io", "release", "idle-after-completion"]},
            {"driver": "epoll", "required_clauses": ["blocking-mode-restored"]},
        ],
    },
    "C18": {
        "level": "model_checking",
        "rule": ("every history up to depth 5 (quick) / 7 (thorough) over {child event, event on a replaced child's handle, remove / replace(ping child) / replace(timer child) / map from inside the parent's process_events, "
                 "the same from outside followed by update(), parent disable / enable / update / remove, dispatch} x every child post-action in {Continue, Reregister, Disable, Remove} (one deviation each), starting from "
                 "From<T> with a ping child, From<T> with a timer child, and Default. states = distinct complete choice sequences; non-trivial = a child callback ran and a child returned a non-Continue action"),
        "assumptions": SEQ_ASSUME + ["the documented protocol is followed: a re-registration is requested after every change; two remove/replace calls without a re-registration in between are not generated",
                                     "whether a child that disabled itself is re-registered by a later register() of the parent is taken from the implementation (statement is silent)",
                                     "alternation of the child's register/unregister is only demanded while the parent's own register/unregister calls alternate (the loop unregisters a disabled parent again on remove)",
                                     "the parent registers its control ping before the TransientSource so that sibling sub-ids never shift (that hazard is C01's)"],
        "drivers": [
            {"driver": "transient", "required_clauses": ["transient", "change-in-process-events", "change-from-outside"]},
        ],
    },
    "C19": {
        "level": "model_checking",
        "rule": ("every sequence up to depth 4 (quick) / 5 (thorough) over {Signals::new(S), add_signals(S), remove_signals(S), set_signals(S) for every S subset of {USR1, USR2, WINCH}, raise(sig), dispatch, drop} in a single-threaded "
                 "process with counting handlers installed; after every call the thread's signal mask, the kernel's pending set and the handler counters are compared with the model. states = distinct complete sequences; non-trivial = at least one signal was delivered to the callback"),
        "assumptions": ["single-threaded process (the sequential engines never spawn threads)", "standard signals coalesce; sender information is checked for raise() from the same process only"],
        "drivers": [
            {"driver": "signals", "required_clauses": ["mask", "signal-delivery", "drop-unblocks"]},
        ],
    },
    "C20": {
        "level": "exploration",
        "rule": ("every (generation, sub-id) pair (2^32 of them) for each boundary slot id is pushed through the real "
                 "fields->key->fields conversions, generation bump and reserved-key test; a dense stride of slot ids with all "
                 "boundary/single-bit (generation, sub-id) pairs; token factories run to exhaustion; the crate's same-source relation over all pairs of boundary keys in both receiver orders. non-trivial = triples with "
                 "generation != 0 and sub-id != 0 (field overlap would show) plus every factory token; all are distinct inputs"),
        "explanation": "exhaustive enumeration of the finite key domain for boundary ids; dense enumeration elsewhere",
        "assumptions": ["64-bit target (16-bit generation and sub-id fields)",
                        "accessors in calloop::verif are thin wrappers over the real conversions (H6, reviewed)"],
        "drivers": [
            {"driver": "keys", "required_clauses": ["roundtrip", "bump", "dense-ids", "factory", "belongs"], "replayable": False},
        ],
    },
}
