"""Property -> drivers table used by ./check (kept separate so the script stays generic)."""

SEQ_ASSUME = [
    "sequential-consistency at hook granularity; interleavings inside std/polling/kernel calls are atomic steps",
    "Linux epoll backend of polling 3.11 (level_triggered emulation map is None)",
    "virtual clock: Instant::now() in calloop is replaced by the harness clock (hook H1); the blocking wait is replaced by a zero-timeout wait plus clock advance (hook H2)",
]

WORLD_RULE = ("every history of top-level operations up to the depth bound over the driver's alphabet, with every placement of "
              "in-callback handle operations up to the deviation bound, is executed against the real EventLoop (choice-tape re-execution "
              "DFS, iterative deviation bounding, optional state-hash pruning) and judged step by step by the reference model. "
              "distinct = distinct observation logs (callback sequence + results); non-trivial = at least one callback ran AND at least "
              "one in-callback deviation took effect")

def world(level_drivers):
    return level_drivers

TABLE = {
    "C01": {
        "level": "model_checking", "rule": WORLD_RULE, "assumptions": SEQ_ASSUME,
        "drivers": [
            {"driver": "reuse", "required_clauses": ["callback-legitimacy", "stale-token", "dispatch-owed", "timer-fire"]},
            {"driver": "batch", "required_clauses": ["callback-legitimacy", "dispatch-owed"]},
            {"driver": "disable", "required_clauses": ["callback-legitimacy"]},
        ],
    },
    "C02": {
        "level": "model_checking", "rule": WORLD_RULE, "assumptions": SEQ_ASSUME + ["HUP/ERR readiness is not generated (both ends of every fd stay open)"],
        "drivers": [
            {"driver": "modes", "required_clauses": ["dispatch-owed", "oneshot", "epoll-table", "callback-legitimacy"]},
            {"driver": "batch", "required_clauses": ["dispatch-owed", "callback-legitimacy", "timer-fire"]},
        ],
    },
    "C06": {
        "level": "model_checking", "rule": WORLD_RULE, "assumptions": SEQ_ASSUME + ["no actor owns a strong LoopHandle (the documented reference cycle is excluded by construction)"],
        "drivers": [
            {"driver": "removal", "required_clauses": ["release", "stale-token", "callback-legitimacy", "epoll-table"]},
            {"driver": "reuse", "required_clauses": ["release", "stale-token"]},
        ],
    },
    "C07": {
        "level": "model_checking", "rule": WORLD_RULE, "assumptions": SEQ_ASSUME,
        "drivers": [
            {"driver": "disable", "required_clauses": ["callback-legitimacy", "dispatch-owed", "timer-fire", "oneshot"]},
            {"driver": "batch", "required_clauses": ["callback-legitimacy", "dispatch-owed"]},
        ],
    },
    "C20": {
        "level": "exploration",
        "rule": ("every (generation, sub-id) pair (2^32 of them) for each boundary slot id is pushed through the real "
                 "fields->key->fields conversions, generation bump and reserved-key test; a dense stride of slot ids with all "
                 "boundary/single-bit (generation, sub-id) pairs; token factories run to exhaustion. non-trivial = triples with "
                 "generation != 0 and sub-id != 0 (field overlap would show) plus every factory token; all are distinct inputs"),
        "explanation": "exhaustive enumeration of the finite key domain for boundary ids; dense enumeration elsewhere",
        "assumptions": ["64-bit target (16-bit generation and sub-id fields)",
                        "accessors in calloop::verif are thin wrappers over the real conversions (H6, reviewed)"],
        "drivers": [
            {"driver": "keys", "required_clauses": ["roundtrip", "bump", "dense-ids", "factory"], "replayable": False},
        ],
    },
}
